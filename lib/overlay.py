"""Parser for the contract overlay files (contracts/*.vc).

Format (indentation based, '#' starts a comment line):

  file <path under src/>
    module <a::b>
    keep <item names...>
    drop_use <substring>            (repeatable)
    extra                           (Verus text appended to the module: spec helpers)
      <text>
    item_extra <item name | impl:<key>>
      <text>

  unit <id>
    file <path under src/>
    at <fn:name | fn:outer/inner | impl:<key>/name | trait:<T>/name>
    world mut|ro|none
    ret <binder>
    props C01 C18                   (properties the unit's body obligations serve)
    flavours default tokio          (optional)
    inherent                        (R13)
    assumed                         (R9: body not verified; contract is an assumption)
    attrs <text>
    strslice <idents...>            (R15)
    requires
      <clause>                      (one clause per block)
    ensures [<label>]
      <clause>
    loop <n>
      <invariant/decreases text>
    closure <callee>#<k>            (k-th closure literal passed to a call named <callee>)
      type <type of parameter 1>    (one `type` line per parameter; names come from the source)
      ret <binder>: <type>
      contract
        <text; $1 $2 .. stand for the parameter names>
    hint before|after "<anchor>"
      <text>
    body_open
      <text>
"""
import re


class OverlayError(Exception):
    pass


def _blocks(lines):
    """yield (indent, header, body_lines) for top-level entries at a given indentation"""
    i = 0
    n = len(lines)
    while i < n:
        ln = lines[i]
        if not ln.strip() or ln.lstrip().startswith('#'):
            i += 1
            continue
        ind = len(ln) - len(ln.lstrip())
        j = i + 1
        body = []
        while j < n:
            l2 = lines[j]
            if not l2.strip():
                body.append('')
                j += 1
                continue
            ind2 = len(l2) - len(l2.lstrip())
            if ind2 <= ind:
                break
            body.append(l2)
            j += 1
        while body and not body[-1].strip():
            body.pop()
        yield ind, ln.strip(), body
        i = j


def _dedent(body):
    inds = [len(l) - len(l.lstrip()) for l in body if l.strip()]
    if not inds:
        return ''
    m = min(inds)
    return '\n'.join(l[m:] if l.strip() else '' for l in body)


def parse_overlay(text, fname='<overlay>'):
    files = {}
    units = []
    lines = text.split('\n')
    for ind, head, body in _blocks(lines):
        kind, _, rest = head.partition(' ')
        rest = rest.strip()
        if kind == 'file':
            f = files.setdefault(rest, {'module': None, 'keep': [], 'drop_use': [], 'extra': [], 'item_extra': {}, 'lifts': []})
            for _, h2, b2 in _blocks(body):
                k2, _, r2 = h2.partition(' ')
                r2 = r2.strip()
                if k2 == 'module':
                    f['module'] = r2
                elif k2 == 'keep':
                    f['keep'] += r2.split()
                elif k2 == 'drop_use':
                    f['drop_use'].append(r2.strip('"'))
                elif k2 == 'flavours':
                    f['flavours'] = r2.split()
                elif k2 == 'lift':
                    # lift <at> | <callee>#<k> | <fn signature>
                    at, ck, sig = [x.strip() for x in r2.split('|', 2)]
                    callee, _, k = ck.partition('#')
                    f['lifts'].append({'in': at, 'callee': callee, 'k': int(k or 1), 'sig': sig})
                elif k2 == 'extra':
                    f['extra'].append(_dedent(b2))
                elif k2 == 'item_extra':
                    f['item_extra'][r2] = _dedent(b2)
                else:
                    raise OverlayError(f'{fname}: unknown file directive {k2}')
        elif kind == 'unit':
            u = {'id': rest, 'file': None, 'at': None, 'world': 'none', 'ret': None, 'props': [],
                 'flavours': None, 'inherent': False, 'assumed': False, 'attrs': '', 'strslice': [],
                 'requires': [], 'ensures': [], 'loops': {}, 'closures': {}, 'hints': [], 'body_open': '',
                 'keep_generics': False, 'tryconv': False, 'src': fname}
            for _, h2, b2 in _blocks(body):
                k2, _, r2 = h2.partition(' ')
                r2 = r2.strip()
                if k2 == 'file':
                    u['file'] = r2
                elif k2 == 'at':
                    u['at'] = r2
                elif k2 == 'world':
                    u['world'] = r2
                elif k2 == 'ret':
                    u['ret'] = r2
                elif k2 == 'props':
                    u['props'] = r2.split()
                elif k2 == 'flavours':
                    u['flavours'] = r2.split()
                elif k2 == 'inherent':
                    u['inherent'] = True
                elif k2 == 'assumed':
                    u['assumed'] = True
                elif k2 == 'twin':
                    # `twin <at> <id>`: the same contract is attached to a second function
                    # `twin <at> | <id> [| a=>b ; c=>d]` (text substitutions applied to the contract)
                    parts = [x.strip() for x in r2.split('|')]
                    subs = []
                    if len(parts) > 2 and parts[2]:
                        for sub in parts[2].split(';'):
                            a, _, b = sub.partition('=>')
                            subs.append((a.strip(), b.strip()))
                    u.setdefault('twins', []).append((parts[0], parts[1], subs))
                elif k2 == 'tryconv':
                    u['tryconv'] = True
                elif k2 == 'keep_generics':
                    u['keep_generics'] = True
                elif k2 == 'attrs':
                    u['attrs'] = r2
                elif k2 == 'strslice':
                    u['strslice'] += r2.split()
                elif k2 == 'requires':
                    m = re.match(r'\[([^\]]+)\]\s*$', r2)
                    u['requires'].append((m.group(1) if m else None, _dedent(b2)))
                elif k2 == 'ensures':
                    m = re.match(r'\[([^\]]+)\]\s*$', r2)
                    if not m:
                        raise OverlayError(f'{fname}: unit {rest}: ensures needs a [label]')
                    u['ensures'].append((m.group(1), _dedent(b2)))
                elif k2 == 'loop':
                    u['loops'][r2] = _dedent(b2)
                elif k2 == 'closure':
                    c = {'types': [], 'ret': '', 'contract': ''}
                    for _, h3, b3 in _blocks(b2):
                        k3, _, r3 = h3.partition(' ')
                        if k3 == 'type':
                            c['types'].append(r3.strip())
                        elif k3 == 'ret':
                            c['ret'] = r3.strip()
                        elif k3 == 'contract':
                            c['contract'] = _dedent(b3)
                        else:
                            raise OverlayError(f'{fname}: unit {rest}: closure {r2}: unknown directive {k3}')
                    u['closures'][r2] = c
                elif k2 == 'hint':
                    m = re.match(r'(before|after)\s+"(.*)"\s*$', r2)
                    if not m:
                        raise OverlayError(f'{fname}: unit {rest}: bad hint header {r2}')
                    u['hints'].append({'where': m.group(1), 'anchor': m.group(2), 'text': _dedent(b2)})
                elif k2 == 'body_open':
                    u['body_open'] = _dedent(b2)
                else:
                    raise OverlayError(f'{fname}: unit {rest}: unknown directive {k2}')
            if not u['file'] or not u['at']:
                raise OverlayError(f'{fname}: unit {rest}: file/at missing')
            units.append(u)
            for a2, i2, subs in u.get('twins', []):
                def sb(x):
                    for a, b in subs:
                        x = x.replace(a, b)
                    return x
                t = dict(u)
                t['at'], t['id'] = a2, i2
                t['twins'] = []
                t['twin_of'] = u['id']
                t['requires'] = [(l, sb(c)) for l, c in u['requires']]
                t['ensures'] = [(sb(l), sb(c)) for l, c in u['ensures']]
                t['loops'] = {k: sb(v) for k, v in u['loops'].items()}
                t['closures'] = {k: {'types': [sb(x) for x in v['types']], 'ret': sb(v['ret']), 'contract': sb(v['contract'])} for k, v in u['closures'].items()}
                t['hints'] = [{'where': h['where'], 'anchor': h['anchor'], 'text': sb(h['text'])} for h in u['hints']]
                t['body_open'] = sb(u['body_open'])
                units.append(t)
        else:
            raise OverlayError(f'{fname}: unknown top-level entry {kind}')
    return files, units


def label_props(label):
    """'C01+C18.copy.ok' -> ['C01','C18']"""
    head = label.split('.', 1)[0]
    return head.split('+')


def sig_contract_text(u):
    """Build the text woven between signature and body, with obligation markers."""
    out = []
    if u['requires']:
        out.append('    requires')
        for label, c in u['requires']:
            if label:
                out.append(f'        // @PRE {label}')
            out.append('        (' + c.replace('\n', '\n        ') + '),')
            if label:
                out.append('        // @ENDOBL')
    if u['ensures']:
        out.append('    ensures')
        for label, c in u['ensures']:
            out.append(f'        // @OBL {label}')
            out.append('        (' + c.replace('\n', '\n        ') + '),')
        out.append('        // @ENDOBL')
    return '\n'.join(out)
