#!/usr/bin/env python3
"""developer loop: extract + verify one flavour, print failures readably"""
import sys, os, json
sys.path.insert(0, os.path.dirname(os.path.abspath(__file__)))
import pipeline as P

def main():
    flavour = sys.argv[1] if len(sys.argv) > 1 else 'default'
    extra = sys.argv[2:]
    cfg = P.load_config()
    files, units = P.load_overlays()
    try:
        ext, active, text, meta, gen, res, weak, bare = P.full_run(flavour, cfg, files, units)
    except P.Undecided as e:
        print('UNDECIDED(extract):', e); sys.exit(2)
    if bare: print('BARE', bare)
    print('generated', gen, len(text.split('\n')), 'lines; units', len(meta['units']), 'obls', len(meta['obls']))
    if weak: print('AUTO-WEAK', weak)
    for fo in ext['files'].values():
        for d in fo.get('degraded', []): print('DEGRADED', d)
        for d in fo.get('auto_units', []): print('AUTO-UNIT', d)
    print('verus rc', res['rc'], 'wall %.1fs' % res['wall_s'])
    try:
        c = P.classify(res, meta, os.path.basename(gen))
    except P.Undecided as e:
        print('UNDECIDED:', str(e)[:6000]); sys.exit(2)
    known = json.load(open(os.path.join(P.VERIF, 'known_findings.json')))['findings']
    kn = {f"{e['obligation']}@{e['unit']}" for e in known}
    for k, ds in c['failed'].items():
        if k in kn or k.startswith('__canary__'):
            continue
        print('FAILED', k)
        for d in ds:
            print('   ', (d.get('rendered') or d['message'])[:1500].replace('\n', '\n    '))
    for d in c['tool_limited']:
        print('TOOL-LIMIT', (d.get('rendered') or d['message'])[:800])
    for d in c['unmapped']:
        print('UNMAPPED', (d.get('rendered') or d['message'])[:1500])
    print('verified fns', c['verified_fns'], 'errors', c['errors'])
    ft = P.fn_times(res['json'])
    slow = sorted(ft.items(), key=lambda kv: -kv[1]['ms'])[:8]
    print('slowest:', [(k, v['ms']) for k, v in slow])

main()
