#!/usr/bin/env python3
"""writes MANIFEST.json from the table below + the obligations that currently exist"""
import json, os, sys
HERE = os.path.dirname(os.path.dirname(os.path.abspath(__file__)))
base = json.load(open(os.path.join(HERE, 'contracts', 'baseline.json'))) if os.path.exists(os.path.join(HERE, 'contracts', 'baseline.json')) else {}
claims = json.load(open(os.path.join(HERE, 'contracts', 'claims.json')))
props = [json.loads(l)['id'] for l in open(os.path.join(HERE, 'properties.jsonl')) if l.strip()]
checks, na = [], []
for p in props:
    c = claims.get(p, {})
    if c.get('not_applicable') or not base.get(p) or 'text' not in c:
        na.append({'property_id': p, 'reason': c.get('not_applicable') or c.get('pending', 'no contract covers this property yet (work in progress in this round)')})
        continue
    checks.append({
        'property_id': p,
        'quick_cmd': f'./check {p} --tier quick',
        'thorough_cmd': f'./check {p} --tier thorough',
        'evidence_file': f'evidence/{p}.json',
        'replay_cmd_template': f'./check {p} --replay {{path}}',
        'engine': 'verus-contracts',
        'level_claimed': {'category': 'proof', 'text': c['text'], 'design_ref': c.get('design_ref', 'DESIGN.md section 6')},
        'level_note': c['note'],
        'technique': c.get('technique', 'contract-based deductive verification (Verus) of function bodies extracted mechanically from /repo on every run'),
    })
m = {
    'version': 1,
    'setup_cmd': 'make -C /verif setup',
    'hooks': {'guard': 'cacache_verif', 'enable': 'none needed: the checks read /repo/src and never build the crate with hooks',
              'baseline_off_cmd': 'cd /repo && cargo test --workspace --no-fail-fast --offline',
              'source_commits': [], 'add_only': True},
    'engines': [{'name': 'verus-contracts', 'path': 'check', 'serves_properties': [c['property_id'] for c in checks],
                 'kind_free_text': 'syn-based extractor (extractor/) re-reads /repo/src, applies logged rewrites, weaves contracts/*.vc; Verus 0.2026.09.13 discharges every obligation; lib/pipeline.py maps failures to named obligations'}],
    'checks': checks,
    'not_applicable': na,
    'notes': 'exit 0: every obligation recorded for the pinned tree is discharged on the current tree. exit 1 + VIOLATION line: an obligation of the pinned tree fails in a unit whose proof context is intact (all callees still have their contracts or were written out, no new loop, no unspecified std call - rule T1, DESIGN.md 3.6). exit 2 means undecided, never an alarm: lost anchor / construct outside the subset / solver limit / a failed proof in a unit whose proof context lost information / the code-generating attributes of an item with an assumed contract changed (assumption guard). See DESIGN.md sections 3.6 and 9.',
}
json.dump(m, open(os.path.join(HERE, 'MANIFEST.json'), 'w'), indent=1)
print('claimed', [c['property_id'] for c in checks], 'not_applicable', [n['property_id'] for n in na])
