#!/bin/sh
# usage: lib/seedcheck.sh <patch.diff> [props...]   — applies the patch to a scratch copy of /repo/src and runs the checks
set -e
rm -rf /tmp/scr && mkdir -p /tmp/scr && cp -r /repo/src /tmp/scr/src
(cd /tmp/scr && patch -p1 -s < "$1")
shift
cd /verif
if [ $# -eq 0 ]; then VERIF_REPO=/tmp/scr ./check all 2>&1 | grep -E 'VIOLATION|failed obligation|UNDECIDED property|KNOWN' ; else for p in "$@"; do VERIF_REPO=/tmp/scr ./check $p 2>&1 | grep -E 'VIOLATION|failed obligation|UNDECIDED|^OK|KNOWN'; done; fi
