#!/bin/bash
# runs ./check all against every seeded change (scratch copy of /repo/src), prints a matrix.
# 6 workers, each with its own build / evidence / replay directories under .build/matrix/<k>
cd /verif
rm -rf .build/matrix; mkdir -p .build/matrix
one() {
  n=$1; k=$2; prop=${n%%_*}
  B=/verif/.build/matrix/$n; S=$B/repo
  mkdir -p $B; rm -rf $S && mkdir -p $S && cp -r /repo/src $S/src
  if ! (cd $S && patch -p1 -s < /verif/seeded/$n/patch.diff >/dev/null 2>&1); then echo "$n | PATCH-FAILS"; return; fi
  out=$(VERIF_BUILD=$B VERIF_EVIDENCE=$B/evidence VERIF_REPLAYS=$B/replays VERIF_REPO=$S ./check all 2>&1)
  viol=$(echo "$out" | grep -o 'VIOLATION property=C[0-9]*' | sed 's/VIOLATION property=//' | sort -u | tr '\n' ' ')
  und=$(echo "$out" | grep -E 'UNDECIDED property=all' | cut -c1-140)
  own=$(echo "$out" | grep -q "VIOLATION property=$prop " && echo HIT || echo miss)
  obl=$(echo "$out" | grep -A40 "VIOLATION property=$prop " | grep 'failed obligation' | head -2 | sed 's/  failed obligation //; s/#.*//' | tr '\n' ';')
  echo "$n | own=$own | violations: $viol | $und | $obl"
  rm -rf $B
}
export -f one
ls seeded | awk '{print $1, (NR%6)}' | xargs -P 6 -n 2 bash -c 'one "$0" "$1"' | sort
rm -rf .build/matrix/*/repo
