#!/bin/bash
# runs ./check all against every seeded change (scratch copy of /repo/src), prints a matrix
cd /verif
for d in seeded/*/; do
  n=$(basename $d); prop=${n%%_*}
  rm -rf /tmp/scr && mkdir -p /tmp/scr && cp -r /repo/src /tmp/scr/src
  if ! (cd /tmp/scr && patch -p1 -s < /verif/$d/patch.diff >/dev/null 2>&1); then echo "$n PATCH-FAILS"; continue; fi
  out=$(VERIF_REPO=/tmp/scr ./check all 2>&1)
  viol=$(echo "$out" | grep -o 'VIOLATION property=C[0-9]*' | sed 's/VIOLATION property=//' | sort -u | tr '\n' ' ')
  und=$(echo "$out" | grep -E 'UNDECIDED property=all' | cut -c1-160)
  own=$(echo "$viol" | grep -qw $prop && echo HIT || echo miss)
  echo "$n | own=$own | violations: $viol | $und"
done
