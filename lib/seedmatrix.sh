#!/bin/bash
# runs ./check all against every seeded change (scratch copy of /repo/src), prints a matrix.
# 6 workers, each with its own build / evidence / replay directories under .build/matrix/<seed>.
# optional arguments: seed names (default: all of seeded/).
# Location-independent (a snapshot copy of /verif can run it while /verif is being edited).
V=$(cd "$(dirname "$0")/.." && pwd); export V
cd $V
rm -rf .build/matrix; mkdir -p .build/matrix
one() {
  n=$1; prop=${n%%_*}
  B=$V/.build/matrix/$n; S=$B/repo
  mkdir -p $B; rm -rf $S && mkdir -p $S && cp -r /repo/src $S/src
  if ! (cd $S && patch -p1 -s < $V/seeded/$n/patch.diff >/dev/null 2>&1); then echo "$n | PATCH-FAILS"; return; fi
  out=$(VERIF_BUILD=$B VERIF_EVIDENCE=$B/evidence VERIF_REPLAYS=$B/replays VERIF_REPO=$S ./check all 2>&1)
  viol=$(echo "$out" | grep -o 'VIOLATION property=C[0-9]*' | sed 's/VIOLATION property=//' | sort -u | tr '\n' ' ')
  undp=$(echo "$out" | grep -oE '^C[0-9]+: UNDECIDED' | sed 's/: UNDECIDED//' | sort -u | tr '\n' ' ')
  und=$(echo "$out" | grep -E 'UNDECIDED property=all' | cut -c1-140)
  if echo "$out" | grep -q "VIOLATION property=$prop "; then own=HIT
  elif echo "$out" | grep -qE "^$prop: UNDECIDED|UNDECIDED property=all"; then own=undecided
  else own=miss; fi
  obl=$(echo "$out" | grep -A40 "VIOLATION property=$prop " | grep 'failed obligation' | head -2 | sed 's/  failed obligation //; s/#.*//' | tr '\n' ';')
  why=$(echo "$out" | grep -E "^$prop: UNDECIDED" | grep -o "no longer proved, but [^|]*" | sed 's/^no longer proved, but //' | tr ';' '\n' | sed 's/^ *//' | sort | uniq -c | sort -rn | head -2 | sed 's/^ *[0-9]* //' | cut -c1-110 | tr '\n' ';')
  echo "$n | own=$own | violations: $viol | undecided: $undp $und | $obl | $why"
  rm -rf $B
}
export -f one
if [ $# -gt 0 ]; then printf '%s\n' "$@"; else ls seeded; fi | xargs -P 6 -n 1 bash -c 'one "$0"' | sort
rm -rf .build/matrix
