#!/bin/bash
# runs ./check all against every seeded change (scratch copy of /repo/src), prints a matrix.
# uses its own build / evidence / replay directories so that it can run next to other checks
cd /verif
export VERIF_BUILD=/verif/.build/matrix VERIF_EVIDENCE=/verif/.build/matrix/evidence VERIF_REPLAYS=/verif/.build/matrix/replays
mkdir -p $VERIF_BUILD
S=/verif/.build/matrix/repo
for d in seeded/*/; do
  n=$(basename $d); prop=${n%%_*}
  rm -rf $S && mkdir -p $S && cp -r /repo/src $S/src
  if ! (cd $S && patch -p1 -s < /verif/$d/patch.diff >/dev/null 2>&1); then echo "$n PATCH-FAILS"; continue; fi
  out=$(VERIF_REPO=$S ./check all 2>&1)
  viol=$(echo "$out" | grep -o 'VIOLATION property=C[0-9]*' | sed 's/VIOLATION property=//' | sort -u | tr '\n' ' ')
  und=$(echo "$out" | grep -E 'UNDECIDED property=all' | cut -c1-160)
  own=$(echo "$out" | grep -q "VIOLATION property=$prop " && echo HIT || echo miss)
  echo "$n | own=$own | violations: $viol | $und"
done
rm -rf $S
