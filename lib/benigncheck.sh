#!/bin/bash
# runs ./check all against every harmless edit under selftest/benign: all must exit 0
cd /verif
export VERIF_BUILD=/verif/.build/benign VERIF_EVIDENCE=/verif/.build/benign/evidence VERIF_REPLAYS=/verif/.build/benign/replays
mkdir -p $VERIF_BUILD
S=/verif/.build/benign/repo
for d in selftest/benign/*.diff; do
  n=$(basename $d .diff)
  rm -rf $S && mkdir -p $S && cp -r /repo/src $S/src
  if ! (cd $S && patch -p1 -s < /verif/$d >/dev/null 2>&1); then echo "$n PATCH-FAILS"; continue; fi
  out=$(VERIF_REPO=$S ./check all 2>&1); rc=$?
  echo "$n | exit=$rc | $(echo "$out" | grep -E 'VIOLATION|UNDECIDED|failed obligation' | head -4 | cut -c1-200 | tr '\n' ' ')"
done
rm -rf $S
