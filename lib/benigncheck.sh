#!/bin/bash
# runs ./check all against every behaviour-preserving edit under selftest/benign (hand-made) and
# selftest/benign_agents (made by sub-agents who saw nothing of /verif): none may print VIOLATION.
# exit 0 = proved unchanged, exit 2 = undecided (allowed, reported), exit 1 = FALSE ALARM.
V=$(cd "$(dirname "$0")/.." && pwd); export V
cd $V
one() {
  d=$1; n=$(basename $d .diff)
  B=$V/.build/bn_$n; S=$B/repo
  mkdir -p $B; rm -rf $S && mkdir -p $S && cp -r /repo/src $S/src
  (cd $S && patch -p1 -s < $V/$d >/dev/null 2>&1) || { echo "$n | PATCH-FAILS"; rm -rf $B; return; }
  out=$(VERIF_BUILD=$B VERIF_EVIDENCE=$B/evidence VERIF_REPLAYS=$B/replays VERIF_REPO=$S ./check all 2>&1); rc=$?
  echo "$n | exit=$rc | $(echo "$out" | grep -E 'VIOLATION|UNDECIDED|failed obligation' | head -3 | cut -c1-260 | tr '\n' ' ')"
  [ -n "$KEEP_BUILD" ] && [ $rc != 0 ] || rm -rf $B
}
export -f one
ls selftest/benign/*.diff selftest/benign_agents/*.diff | xargs -P 6 -n 1 bash -c 'one "$0"' | sort
