#!/usr/bin/env python3
"""rewrites the seeded-change table of DESIGN.md section 9 from selftest/seed_matrix.txt"""
import re, json, os
HERE = os.path.dirname(os.path.dirname(os.path.abspath(__file__)))
rows = []
for l in open(os.path.join(HERE, 'selftest', 'seed_matrix.txt')):
    parts = [x.strip() for x in l.rstrip('\n').split('|')]
    if len(parts) < 3 or 'own=' not in parts[1]:
        continue
    if parts[0].endswith('_n') or parts[0].endswith('_z'):
        continue      # the unseen batches are reported separately (selftest/seed_matrix_unseen.txt, seed_matrix_z.txt)
    rows.append((parts[0], parts[1].replace('own=', ''), parts[2].replace('violations:', '').strip(),
                 (parts[3] if len(parts) > 3 else '').replace('undecided:', '').strip(), parts[4] if len(parts) > 4 else '',
                 parts[5] if len(parts) > 5 else ''))


def change(n):
    m = json.load(open(os.path.join(HERE, 'seeded', n, 'meta.json')))
    c = m['change']
    c = re.sub(r'^\s*[Ss]eed[ _]?[A-Za-z]?\b\s*(\(C\d+\))?\s*[—:–-]+\s*', '', c)
    c = re.sub(r'^\s*seed[_ ]\w+\s*[—:–-]+\s*', '', c)
    return c.replace('|', '/')[:115]


tab = ['| seed | the change (one line; details in seeded/<id>/notes.md) | own property | properties whose check reports a violation | first failing obligation / why undecided |', '|---|---|---|---|---|']
for n, own, viol, und, obl, why in rows:
    first = obl.split(';')[0].replace('|', '/')[:95] if obl else ''
    res = '**caught**' if own == 'HIT' else ('**not decided (exit 2)**' if own == 'undecided' else '**missed**')
    if first:
        last = '`' + first + '`'
    elif why:
        last = 'T1: ' + why.split(';')[0][:110]
    else:
        last = re.sub(r'^.*?UNDECIDED property=all: ', '', und)[:110]
    tab.append(f"| {n} | {change(n)} | {res} | {viol or '—'} | {last.replace('|', '/')} |")
hits = sum(1 for r in rows if r[1] == 'HIT')
p = os.path.join(HERE, 'DESIGN.md')
s = open(p).read()
a = s.index('| seed | the change (one line')
b = s.index('\n\n', a)
s = s[:a] + '\n'.join(tab) + s[b:]
s = re.sub(r'\*\*\d+ of \d+ are reported as a VIOLATION of their own property\*\*', f'**{hits} of {len(rows)} are reported as a VIOLATION of their own property**', s)
open(p, 'w').write(s)
print(hits, 'of', len(rows))
