"""Extraction + assembly + Verus run for one build flavour."""
import glob
import hashlib
import json
import os
import re
import subprocess
import sys
import time

from overlay import parse_overlay, sig_contract_text, label_props, OverlayError

VERIF = os.path.dirname(os.path.dirname(os.path.abspath(__file__)))
REPO = os.environ.get('VERIF_REPO', '/repo')
BUILD = os.environ.get('VERIF_BUILD', os.path.join(VERIF, '.build'))
EXTRACTOR = os.path.join(VERIF, 'extractor', 'target', 'release', 'extractor')

FLAVOURS = {
    # crate features -> cfg(feature = ..) names that are on
    'default': {'features': ['default', 'async-std', 'futures', 'mmap', 'memmap2', 'libc'], 'cfg_flags': ['unix', 'target_os=linux']},
    'tokio': {'features': ['tokio-runtime', 'tokio', 'tokio-stream', 'futures', 'mmap', 'memmap2', 'libc', 'link_to'], 'cfg_flags': ['unix', 'target_os=linux']},
    'nommap': {'features': [], 'cfg_flags': ['unix', 'target_os=linux']},
    'linkto': {'features': ['default', 'async-std', 'futures', 'mmap', 'memmap2', 'libc', 'link_to'], 'cfg_flags': ['unix', 'target_os=linux']},
}


class Undecided(Exception):
    """the run cannot decide (lost anchor, unsupported construct, tool failure) -> exit 2"""


def load_config():
    return json.load(open(os.path.join(VERIF, 'contracts', 'config.json')))


def load_overlays():
    files, units = {}, []
    for p in sorted(glob.glob(os.path.join(VERIF, 'contracts', '*.vc'))):
        try:
            f, u = parse_overlay(open(p).read(), os.path.basename(p))
        except OverlayError as e:
            raise Undecided(str(e))
        for k, v in f.items():
            if k in files:
                t = files[k]
                t['keep'] += v['keep']
                t['drop_use'] += v['drop_use']
                t['extra'] += v['extra']
                t['item_extra'].update(v['item_extra'])
                t['module'] = t['module'] or v['module']
                if v.get('flavours'):
                    t['flavours'] = v['flavours']
            else:
                files[k] = v
        units += u
    return files, units


def unit_effect_keys(u):
    """names under which calls to this unit are recognised by R3"""
    at = u['at']
    keys_path, keys_method = [], []
    if at.startswith('fn:'):
        name = at[3:]
        if '/' in name:
            return [], []  # nested: handled by the extractor itself
        mod_last = u['file'].rsplit('/', 1)[-1][:-3]
        keys_path += [name, f'{mod_last}::{name}']
    elif at.startswith('impl:') or at.startswith('trait:'):
        key, _, name = at.split(':', 1)[1].rpartition('/')
        if '/' in key:
            return [], []
        ty = key.split(' for ')[-1]
        ty = re.sub(r'<.*', '', ty).split('::')[-1]
        keys_path.append(f'{ty}::{name}')
        keys_path.append(f'Self::{name}')
        keys_method.append('.' + name)
    return keys_path, keys_method


_SPEC_FNS = None


def spec_lib_fn_names():
    """N1: names of the spec library's functions (glob-imported into every extracted module): a
    function of the CODE with one of these names would shadow it inside the contracts"""
    global _SPEC_FNS
    if _SPEC_FNS is None:
        # (built locally and published in one assignment: the flavours run in parallel threads)
        names = set()
        for f in sorted(glob.glob(os.path.join(VERIF, 'spec', '*.rs'))):
            names |= set(re.findall(r'\bfn\s+(\w+)', open(f).read()))
        _SPEC_FNS = names
    return _SPEC_FNS


def build_extractor_config(flavour, cfg, files, units, bare=(), demoted=()):
    fl = FLAVOURS[flavour]
    eff_path = dict(cfg['effects_path'])
    eff_method = dict(cfg['effects_method'])
    derived = set()
    active = [u for u in units if (u['flavours'] is None or flavour in u['flavours'])
              and (not files.get(u['file'], {}).get('flavours') or flavour in files[u['file']]['flavours'])
              and not any(u['id'] == d or u['id'].startswith(d + '::') for d in demoted)]
    for u in active:
        if u['world'] == 'none':
            continue
        kp, km = unit_effect_keys(u)
        for k in kp:
            if k in eff_path and eff_path[k] != u['world'] and '::' not in k:
                # ambiguous bare name: require qualified use
                eff_path[k] = 'AMBIGUOUS'
            else:
                eff_path.setdefault(k, u['world'])
        for k in km:
            # an explicitly configured method effect (contracts/config.json) wins; associated
            # functions without a receiver are called by path and never hit this table
            if k not in eff_method:
                derived.add(k)
            eff_method.setdefault(k, u['world'])
    eff_path = {k: v for k, v in eff_path.items() if v != 'AMBIGUOUS'}
    fcfg = {}
    for fname, f in files.items():
        if f.get('flavours') and flavour not in f['flavours']:
            continue
        fcfg[fname] = {'keep_items': sorted(set(f['keep'])), 'units': [], 'drop_uses': f['drop_use'],
                       'item_extra': f['item_extra'], 'lifts': f.get('lifts', []),
                       'extra_fn_names': sorted(set(re.findall(r'\bfn\s+(\w+)', '\n'.join(f['extra']))) | spec_lib_fn_names())}
    locals_base = {}
    lp = os.path.join(VERIF, 'contracts', 'locals.json')
    if os.path.exists(lp):
        locals_base = json.load(open(lp))
    for u in active:
        if u['file'] not in fcfg:
            raise Undecided(f"unit {u['id']}: file {u['file']} has no `file` entry in the overlay")
        fcfg[u['file']]['units'].append({
            'locals': locals_base.get(u['id'], []),
            'sig_base': (locals_base.get('sig:' + u['id']) or [''])[0],
            'id': u['id'], 'at': u['at'], 'world': u['world'], 'ret': u['ret'],
            'sig_contract': sig_contract_text(u), 'attrs': u['attrs'],
            'loops': u['loops'], 'closures': u['closures'], 'hints': u['hints'],
            'body_open': u['body_open'], 'inherent': u['inherent'], 'drop_body': u['assumed'],
            'str_slices': [] if u['id'] in bare else u['strslice'], 'keep_generics': u['keep_generics'], 'try_conv': u['tryconv'],
            'bare': u['id'] in bare,
        })
    return {
        'src': os.path.join(REPO, 'src'),
        'features': fl['features'], 'cfg_flags': fl['cfg_flags'],
        'roots': cfg['roots'], 'macro_map': cfg['macro_map'], 'path_map': cfg.get('path_map', {}),
        'effects_path': eff_path, 'effects_method': eff_method, 'effects_method_derived': sorted(derived),
        'iter_renames': cfg['iter_renames'], 'asref_map': cfg['asref_map'],
        'opaque_fmt_in': cfg['opaque_fmt_in'], 'world_ty': 'crate::shims::World',
        'files': fcfg,
    }, active


MOD_PRELUDE = ('#[allow(unused_imports)] use vstd::prelude::*;\n'
               '#[allow(unused_imports)] use crate::spec::*;\n'
               '#[allow(unused_imports)] use crate::shims::World;\n'
               '#[allow(unused_imports)] use crate::shims::iter::{IntoIterShim, IterShim};\n'
               '#[allow(unused_imports)] use crate::shims::strs::SplitShim;\n'
               'broadcast use {crate::spec::group_spec_axioms, crate::shims::ssri::group_ssri_axioms};\n')


def flavour_regions(text, flavour):
    """`// @FLAVOUR a b` ... `// @ENDFLAVOUR` regions of a shim / overlay text are kept only for the
    flavours named (`!a` = every flavour but a)"""
    out, keep = [], True
    for ln in text.split('\n'):
        t = ln.strip()
        if t.startswith('// @FLAVOUR '):
            names = t[len('// @FLAVOUR '):].split()
            keep = any((n[1:] != flavour) if n.startswith('!') else (n == flavour) for n in names)
            continue
        if t.startswith('// @ENDFLAVOUR'):
            keep = True
            continue
        if keep:
            out.append(ln)
    return '\n'.join(out)


def assemble(flavour, cfg, files, active_units, ext_out, auto_weak=()):
    """returns (text, meta) — meta maps generated line ranges to units and obligation labels"""
    parts = []
    parts.append('// GENERATED on every run by /verif/check from /repo/src — do not edit\n')
    parts.append('#![allow(unused_imports, unused_variables, dead_code, unused_mut, unused_parens, unused_braces, non_snake_case)]\n')
    parts.append('#![feature(allocator_api, pattern)]\n')
    parts.append('use vstd::prelude::*;\n')
    parts.append(open(os.path.join(VERIF, 'shims', 'macros.rs')).read())
    parts.append('verus! {\n// ASSUMED: 64-bit target (usize is 8 bytes)\nglobal size_of usize == 8;\n')
    # spec library
    parts.append('pub mod spec {\n#[allow(unused_imports)] use vstd::prelude::*;\n')
    for p in cfg['spec_files']:
        parts.append(f'// ---- spec/{p}\n')
        parts.append(open(os.path.join(VERIF, 'spec', p)).read())
    parts.append('} // mod spec\n')
    # shims
    parts.append('pub mod shims {\n#[allow(unused_imports)] use vstd::prelude::*;\npub use crate::spec::World;\n'
                 '/// used ONLY at a call site where a unit whose contract is read-only calls something that\n'
                 '/// mutates the file system (reported as a violation of that unit\'s read-only obligation)\n'
                 '#[verifier::external_body]\npub fn ro_violation_world<\'a>() -> Tracked<&\'a mut World> { unimplemented!() }\n'
                 '/// degraded mode only: code the extraction cannot express is replaced by "anything may have happened"\n'
                 '#[verifier::external_body]\npub fn havoc_world(Tracked(w): Tracked<&mut World>) { unimplemented!() }\n'
                 '#[verifier::external_body]\npub fn arbitrary<T>() -> T { unimplemented!() }\n'
                 '/// `assert!(c)` / `debug_assert!(c)` panic when `c` is false: an obligation (C20)\n'
                 '#[verifier::external_body]\npub fn rt_assert(c: bool) requires c { unimplemented!() }\n'
                 '/// `unreachable!()` panics when reached: an obligation (C20)\n'
                 '#[verifier::external_body]\npub fn rt_unreachable<T>() -> T requires false { unimplemented!() }\n')
    shim_cfg = cfg['shim_files']
    for entry in shim_cfg:
        if 'flavours' in entry and flavour not in entry['flavours']:
            continue
        if entry.get('open'):
            parts.append(entry['open'] + '\n')
        for p in entry.get('files', []):
            parts.append(f'// ---- shims/{p}\n')
            parts.append(flavour_regions(open(os.path.join(VERIF, 'shims', p)).read(), flavour))
        if entry.get('close'):
            parts.append(entry['close'] + '\n')
    if auto_weak:
        parts.append('// ---- AUTO-WEAK specifications: std items the current /repo code uses that neither vstd nor\n'
                     '// shims/ specify.  Declared exactly as Verus suggested, with NO ensures (result unconstrained)\n'
                     '// and NO requires (ASSUMED not to panic).  Listed in the evidence.\n'
                     'pub mod auto_weak {\n#[allow(unused_imports)] use vstd::prelude::*;\n')
        for d in auto_weak:
            parts.append(d + '\n')
        parts.append('} // mod auto_weak\n')
    parts.append('} // mod shims\n')

    # module tree of the crate
    tree = {}
    for fname, f in files.items():
        if fname not in ext_out['files']:
            continue
        modpath = f['module'].split('::') if f['module'] else []
        node = tree
        for m in modpath:
            node = node.setdefault(m, {})
        node['__file__'] = fname

    unit_by_id = {u['id']: u for u in active_units}

    def emit(node, depth):
        out = []
        if '__file__' in node:
            fname = node['__file__']
            out.append(MOD_PRELUDE)
            fo = ext_out['files'][fname]
            for seg in fo['segments']:
                kind = seg['kind']
                if kind in ('fn', 'method', 'trait'):
                    uname = ('trait:' + seg['name']) if kind == 'trait' else seg['name']
                    out.append(f"// @UNIT {uname} {fname}:{seg['src_start_line']}-{seg['src_end_line']}\n")
                    out.append(seg['text'] + '\n')
                    out.append('// @ENDUNIT\n')
                elif kind == 'item' and seg.get('name') in fo.get('auto_items', []):
                    out.append(f"// @UNIT item:{fname}:{seg['name']} {fname}:{seg.get('src_start_line', 0)}-{seg.get('src_end_line', 0)}\n")
                    out.append(seg['text'] + '\n')
                    out.append('// @ENDUNIT\n')
                else:
                    out.append(seg['text'] + '\n')
            for ex in files[fname]['extra']:
                out.append('// ---- overlay extra\n' + ex + '\n')
        for k, v in node.items():
            if k == '__file__':
                continue
            out.append(f'pub mod {k} {{\n')
            out += emit(v, depth + 1)
            out.append(f'}} // mod {k}\n')
        return out

    root_file = tree.pop('__file__', None)
    parts += emit(tree, 0)
    if root_file:
        fo = ext_out['files'][root_file]
        for seg in fo['segments']:
            parts.append(seg['text'] + '\n')
        for ex in files[root_file]['extra']:
            parts.append(ex + '\n')
    # theorems
    parts.append('pub mod theorems {\n' + MOD_PRELUDE)
    for p in cfg.get('theorem_files', []):
        parts.append(f'// ---- theorems/{p}\n')
        parts.append(open(os.path.join(VERIF, 'theorems', p)).read())
    parts.append('} // mod theorems\n')
    # vacuity canary: must FAIL (if it verifies, the axioms/shims are inconsistent)
    parts.append('pub mod canary {\n' + MOD_PRELUDE +
                 '#[allow(unused_imports)] use crate::theorems::*;\n'
                 '// @UNIT __canary__ -:0-0\n'
                 'pub proof fn canary_must_fail()\n    ensures\n        // @OBL __canary__\n        (false),\n        // @ENDOBL\n{ }\n'
                 '// @ENDUNIT\n}\n')
    parts.append('} // verus!\nfn main() {}\n')
    text = ''.join(parts)

    # line map (units may nest: an `inner` fn inside its public wrapper)
    meta = {'units': [], 'obls': [], 'pres': []}
    stack = []
    cur_obl = None
    for i, ln in enumerate(text.split('\n'), start=1):
        s = ln.strip()
        if s.startswith('// @UNIT '):
            _, _, rest = s.partition('// @UNIT ')
            parts = rest.split()
            uid = parts[0]
            src = parts[1] if len(parts) > 1 else '-'
            u = {'id': uid, 'src': src, 'start': i, 'end': None,
                 'props': parts[2].split(',') if len(parts) > 2 else []}
            meta['units'].append(u)
            stack.append(u)
            cur_obl = None
        elif s.startswith('// @ENDUNIT'):
            if stack:
                stack.pop()['end'] = i
            cur_obl = None
        elif s.startswith('// @OBL ') or s.startswith('// @PRE '):
            if cur_obl:
                cur_obl['end'] = i - 1
            kind = 'obls' if s.startswith('// @OBL ') else 'pres'
            label = s[len('// @OBL '):].strip()
            cur_obl = {'label': label, 'unit': stack[-1]['id'] if stack else None, 'start': i + 1, 'end': None, 'text': []}
            meta[kind].append(cur_obl)
        elif s.startswith('// @ENDOBL'):
            if cur_obl:
                cur_obl['end'] = i - 1
            cur_obl = None
        elif cur_obl is not None:
            cur_obl['text'].append(ln.strip())
    return text, meta


def run_extractor(flavour, cfg, files, units, bare=(), opaque=(), vacuity=False, demoted=(), no_inline=False):
    os.makedirs(BUILD, exist_ok=True)
    ecfg, active = build_extractor_config(flavour, cfg, files, units, bare, demoted)
    ecfg['opaque_auto'] = list(opaque)
    ecfg['vacuity_probe'] = bool(vacuity)
    ecfg['no_inline'] = no_inline is True
    ecfg['no_inline_ids'] = [] if isinstance(no_inline, bool) else sorted(no_inline)
    tag = flavour + ('_vac' if vacuity else '')
    cpath = os.path.join(BUILD, f'extract_{tag}.cfg.json')
    opath = os.path.join(BUILD, f'extract_{tag}.out.json')
    json.dump(ecfg, open(cpath, 'w'), indent=1)
    if os.path.exists(opath):
        os.remove(opath)
    if not os.path.exists(EXTRACTOR):
        raise Undecided('extractor binary missing: run setup (make -C /verif setup)')
    p = subprocess.run([EXTRACTOR, cpath, opath], capture_output=True, text=True)
    if not os.path.exists(opath):
        raise Undecided('extractor failed: ' + p.stderr[-2000:])
    out = json.load(open(opath))
    # second pass: helpers / methods without a contract that OTHER files call (their world mode is
    # computed per file by the extractor): make those effects known everywhere and extract again
    extra = {}
    for fname, fo in out['files'].items():
        stem = os.path.basename(fname)[:-3]
        for k, v in fo.get('auto_effects', {}).items():
            if k.startswith('.'):
                if k not in ecfg['effects_method']:
                    extra.setdefault('m', {})[k] = v
            elif '::' in k:
                if not k.startswith('Self::') and k not in ecfg['effects_path']:
                    extra.setdefault('p', {})[k] = v
            else:
                kk = f'{stem}::{k}'
                if kk not in ecfg['effects_path']:
                    extra.setdefault('p', {})[kk] = v
                # also when imported (`use crate::content::path::ensure_dir;`) and called by its bare name
                if k not in ecfg['effects_path']:
                    extra.setdefault('p', {})[k] = v
    if extra and not ecfg.get('_second_pass'):
        ecfg['effects_path'].update(extra.get('p', {}))
        for k, v in extra.get('m', {}).items():
            ecfg['effects_method'][k] = v
            ecfg.setdefault('effects_method_derived', []).append(k)
        ecfg['_second_pass'] = True
        # T1: calls that resolve to one of these keys go to a function without a contract
        ecfg['auto_keys'] = sorted(set(extra.get('p', {})) | set(extra.get('m', {})))
        json.dump(ecfg, open(cpath, 'w'), indent=1)
        os.remove(opath)
        p = subprocess.run([EXTRACTOR, cpath, opath], capture_output=True, text=True)
        if not os.path.exists(opath):
            raise Undecided('extractor failed (second pass): ' + p.stderr[-2000:])
        out = json.load(open(opath))
    if out['errors']:
        raise Undecided('extraction undecided: ' + '; '.join(out['errors'][:10]))
    return out, active


def run_verus(gen_path, rlimit=40, threads=16, seed=0, extra_args=None, timeout=3000):
    cmd = ['verus', gen_path, '--output-json', '--time', '--error-format=json', '--multiple-errors', '50',
           '--rlimit', str(rlimit), '--num-threads', str(threads), '--triggers-mode', 'silent']
    if seed:
        cmd += ['--smt-option', f'smt.random_seed={seed}']
    if extra_args:
        cmd += extra_args
    t0 = time.time()
    try:
        p = subprocess.run(cmd, capture_output=True, text=True, timeout=timeout, cwd=os.path.dirname(gen_path))
    except subprocess.TimeoutExpired:
        raise Undecided('verus timed out')
    wall = time.time() - t0
    diags = []
    raw_err = []
    for ln in p.stderr.split('\n'):
        ln = ln.strip()
        if ln.startswith('{'):
            try:
                diags.append(json.loads(ln))
                continue
            except Exception:
                pass
        if ln:
            raw_err.append(ln)
    try:
        js = json.loads(p.stdout)
    except Exception:
        js = None
    return {'cmd': ' '.join(cmd), 'rc': p.returncode, 'diags': diags, 'raw_err': raw_err, 'json': js, 'wall_s': wall}


VERIFICATION_FAILURE = re.compile(r'(postcondition not satisfied|precondition not satisfied|assertion failed|invariant not satisfied'
                                  r'|possible arithmetic (under|over)flow|possible division by zero|decreases not satisfied'
                                  r'|possible bit shift|cannot prove termination|index out of bounds|recommendation not met'
                                  r'|unable to prove|not satisfied|may panic|possible )', re.I)
HARD_ERROR_HINTS = ('rlimit', 'resource limit', 'timeout', 'timed out', 'canceled', 'incomplete')


def classify(res, meta, gen_name):
    """-> dict with per-obligation status.  Raises Undecided on compile errors / tool limits."""
    js = res['json']
    errors = [d for d in res['diags'] if d.get('level') == 'error']
    if js is None or 'verification-results' not in js:
        msgs = [d.get('rendered') or d.get('message') for d in errors][:5]
        raise Undecided('verus produced no result (compile error in generated file?):\n' + '\n'.join(m or '' for m in msgs) + '\n'.join(res['raw_err'][-15:]))
    vr = js['verification-results']
    if vr.get('encountered-vir-error'):
        msgs = [d.get('rendered') or d.get('message') for d in errors][:5]
        raise Undecided('verus rejected the generated file:\n' + '\n'.join(m or '' for m in msgs))
    if vr.get('encountered-error') and not errors:
        raise Undecided('verus failed without a diagnostic (internal error?):\n' + '\n'.join(res['raw_err'][:12]))
    # rustc-level compile errors (type errors) show up as errors with a code and no verification stats
    verified = vr.get('verified', 0)
    failed = {}   # label or unit.body -> [diag]
    tool_limited = []
    unmapped = []

    def find_unit(line):
        best = None
        for u in meta['units']:
            if u['start'] <= line <= (u['end'] or 10**9):
                if best is None or u['start'] >= best['start']:
                    best = u
        return best

    def find_pre(line):
        for o in meta['pres']:
            if o['start'] <= line <= (o['end'] or o['start']):
                return o
        return None

    def find_obl(line):
        for o in meta['obls']:
            if o['start'] <= line <= (o['end'] or o['start']):
                return o
        return None

    for d in errors:
        msg = d.get('message', '')
        if msg.startswith('aborting due to'):
            continue
        if d.get('code'):
            raise Undecided('rustc error in generated file: ' + (d.get('rendered') or msg)[:3000])
        spans = [s for s in d.get('spans', []) if s.get('file_name', '').endswith(gen_name)]
        low = msg.lower()
        if any(h in low for h in HARD_ERROR_HINTS):
            tool_limited.append(d)
            continue
        if not VERIFICATION_FAILURE.search(msg):
            raise Undecided('verus error that is not a verification failure: ' + (d.get('rendered') or msg)[:3000])
        # attribute: a span inside an obligation clause -> that label; else the unit's body
        obl = None
        unit = None
        pre = None
        for s in spans:
            o = find_obl(s['line_start'])
            if o and obl is None:
                obl = o
            p = find_pre(s['line_start'])
            if p and pre is None and not s.get('is_primary'):
                pre = p
            u = find_unit(s['line_start'])
            if u and unit is None and s.get('is_primary'):
                unit = u
        if unit is None:
            for s in spans:
                u = find_unit(s['line_start'])
                if u:
                    unit = u
                    break
        if obl is not None:
            failed.setdefault(obl['label'] + '@' + (obl['unit'] or ''), []).append(d)
        elif pre is not None and unit is not None:
            # a labelled precondition of a callee that the calling unit cannot establish
            failed.setdefault('pre:' + pre['label'] + '@' + unit['id'], []).append(d)
        elif unit is not None:
            failed.setdefault(unit['id'] + '.body@' + unit['id'], []).append(d)
        else:
            unmapped.append(d)
    return {'failed': failed, 'tool_limited': tool_limited, 'unmapped': unmapped, 'verified_fns': verified,
            'errors': vr.get('errors', 0)}


def fn_times(js):
    """per-function smt time (ms) and success from --time output"""
    out = {}
    try:
        for m in js['times-ms']['smt']['smt-run-module-times']:
            for f in m.get('function-breakdown', []):
                out[f['function']] = {'ms': f['time'], 'rlimit': f.get('rlimit'), 'success': f.get('success')}
    except Exception:
        pass
    return out


SUGGEST = re.compile(r'The following declaration may resolve this error:\n(.*?)(?:\n\s*\n|\Z)', re.S)


def fix_suggestion(d):
    """Verus prints some suggested declarations in a form it does not itself accept"""
    d = re.sub(r'\b(?:std|core|alloc)::slice::<impl \[T\]>::', '<[T]>::', d)
    d = re.sub(r'\b(?:std|core|alloc)::str::<impl str>::', 'str::', d)
    d = re.sub(r'\b(?:std|core|alloc)(?:::\w+)+::<impl (\w+)>::', r'\1::', d)
    d = re.sub(r'std::ops::FnMut\(([^)]*?),?\) \+ std::ops::FnOnce\([^)]*\)', r'std::ops::FnMut(\1)', d)
    d = re.sub(r'std::ops::Fn\(([^)]*?),?\) \+ std::ops::FnMut\([^)]*\) \+ std::ops::FnOnce\([^)]*\)', r'std::ops::Fn(\1)', d)
    d = re.sub(r',\s*;', ';', d)
    if '#[verifier::external_type_specification]' in d and 'external_body' not in d:
        d = d.replace('#[verifier::external_type_specification]', '#[verifier::external_type_specification]\n#[verifier::external_body]')
    return d


def suggested_decls(res):
    """declarations Verus itself proposes for unsupported std items"""
    out = []
    for d in res['diags']:
        txt = d.get('rendered') or ''
        if 'is not supported' not in (d.get('message') or '') and 'is not supported' not in txt:
            continue
        for m in SUGGEST.finditer(txt):
            lines = [re.sub(r'^\s*(=\s*help:)?\s?', '', l) for l in m.group(1).split('\n')]
            decl = '\n'.join(l for l in lines if l.strip())
            decl = fix_suggestion(decl.strip())
            if decl and decl not in out:
                out.append(decl)
    return out


def unit_of_rustc_error(res, meta, gen_name):
    """the unit (innermost @UNIT region) a rustc compile error points into, if any"""
    for d in res['diags']:
        if d.get('level') != 'error' or not d.get('code'):
            continue
        for sp in d.get('spans', []):
            if not sp.get('file_name', '').endswith(gen_name):
                continue
            best = None
            for u in meta['units']:
                if u['start'] <= sp['line_start'] <= (u['end'] or 10**9):
                    if best is None or u['start'] >= best['start']:
                        best = u
            if best is not None:
                return best['id']
    return None


def verify_with_auto_weak(flavour, cfg, files, active, ext, rlimit, seed, max_rounds=8):
    """assemble + verus; if Verus rejects the file only because some std item has no
    specification, add the declaration it proposes (no ensures) and retry"""
    weak = []
    for _ in range(max_rounds):
        text, meta = assemble(flavour, cfg, files, active, ext, auto_weak=weak)
        gen = os.path.join(BUILD, f'gen_{flavour}.rs')
        open(gen, 'w').write(text)
        res = run_verus(gen, rlimit=rlimit, seed=seed)
        js = res['json']
        rejected = js is None or js.get('verification-results', {}).get('encountered-vir-error')
        if not rejected:
            return text, meta, gen, res, weak
        new = [d for d in suggested_decls(res) if d not in weak]
        if not new:
            return text, meta, gen, res, weak
        weak += new
    return text, meta, gen, res, weak


def region_of_hard_error(res, meta, gen_name):
    """the innermost @UNIT region that an error which is NOT a verification failure (rustc type
    error, construct Verus rejects) points into, if any"""
    for d in res['diags']:
        if d.get('level') != 'error':
            continue
        msg = d.get('message', '')
        if msg.startswith('aborting due to') or (not d.get('code') and VERIFICATION_FAILURE.search(msg)):
            continue
        for sp in d.get('spans', []):
            if not sp.get('file_name', '').endswith(gen_name):
                continue
            best = None
            for u in meta['units']:
                if u['start'] <= sp['line_start'] <= (u['end'] or 10**9):
                    if best is None or u['start'] >= best['start']:
                        best = u
            if best is not None:
                return best['id']
    return None


def error_in_contract_text(res, meta, gen_name):
    """the first rustc error points into a requires/ensures clause (the contract itself no longer
    type-checks), not into the function body"""
    for d in res['diags']:
        if d.get('level') != 'error' or not d.get('code'):
            continue
        for sp in d.get('spans', []):
            if not sp.get('file_name', '').endswith(gen_name):
                continue
            ln = sp['line_start']
            for o in meta['obls'] + meta['pres']:
                if o['start'] <= ln <= (o['end'] or o['start']):
                    return True
            # an unlabelled clause: anywhere between the signature and the line that opens the body
            try:
                tl = open(os.path.join(BUILD, gen_name)).read().split('\n')
            except OSError:
                return False
            best = None
            for u in meta['units']:
                if u['start'] <= ln <= (u['end'] or 10**9) and (best is None or u['start'] >= best['start']):
                    best = u
            if best is not None:
                seen_contract = False
                for i in range(best['start'], ln):
                    t = tl[i].strip()      # tl[i] is line i+1
                    if t in ('requires', 'ensures') or t.startswith('requires ') or t.startswith('ensures '):
                        seen_contract = True
                    if t.startswith('{'):
                        return False
                return seen_contract
        return False
    return False


def full_run(flavour, cfg, files, units, rlimit=40, seed=0):
    """extract + verify, retrying (a) with Verus' own suggested weak std specs, (b) with the
    loop/closure/hint annotations of a unit dropped when the woven text no longer type-checks
    against the current body of that unit ("bare" mode: only its pre/postconditions remain) and
    (c) with an auto-included helper (a same-file function without a contract that a unit calls)
    reduced to its signature - external_body, nothing known about its result - or an
    auto-included const/static/type left out, when the compiler or Verus rejects it ("opaque")"""
    bare = set()
    opaque = set()
    demoted = set()
    inline_off = False
    noinl, noinl_added = set(), {}
    annotated = {u['id'] for u in units if u['closures'] or u['loops'] or u['hints'] or u['strslice'] or u['body_open']}
    unit_ids = {u['id'] for u in units}
    for _ in range(12):
        ext, active = run_extractor(flavour, cfg, files, units, bare=tuple(bare), opaque=tuple(sorted(opaque)), demoted=tuple(sorted(demoted)), no_inline=(True if inline_off else sorted(noinl)))
        text, meta, gen, res, weak = verify_with_auto_weak(flavour, cfg, files, active, ext, rlimit, seed)
        hid = region_of_hard_error(res, meta, os.path.basename(gen))
        if os.environ.get('VERIF_TRACE'):
            errs = [(d.get('rendered') or d.get('message') or '')[:1200] for d in res['diags'] if d.get('level') == 'error'][:3]
            sys.stderr.write(f'TRACE stage bare={sorted(bare)} opaque={sorted(opaque)} demoted={sorted(demoted)} inline_off={inline_off} hid={hid} rc={res["rc"]}\n' + ('\n'.join(errs) if hid or res['json'] is None or (res['json'] or {}).get('verification-results', {}).get('encountered-vir-error') else '') + '\n')
        if hid is not None and (hid.startswith('auto:') or hid.startswith('item:')) and hid not in opaque:
            opaque.add(hid)
            continue
        uid = unit_of_rustc_error(res, meta, os.path.basename(gen))
        if uid is None and hid is not None and not inline_off and hid not in noinl_added:
            # Verus (not rustc) rejects a construct inside a listed unit: it may sit in text that
            # rule I1 wrote out there - once more with the helpers of that file called instead
            ufile = next((u['file'] for u in units if u['id'] == hid or hid.startswith(u['id'] + '::')), None)
            helpers = set(ext['files'].get(ufile, {}).get('inlined_helpers', [])) - noinl if ufile else set()
            noinl_added[hid] = helpers
            if helpers:
                noinl |= helpers
                continue
        if uid is None:
            break
        # (b0) what does not compile may be the text of a helper that rule I1 wrote out inside this
        # unit: first once more with the helpers of that file called, not written out (the error
        # then sits in the helper itself and (c) applies); undone if it does not help
        if not inline_off and not uid.startswith('auto:') and uid not in noinl_added:
            ufile = next((u['file'] for u in units if u['id'] == uid or uid.startswith(u['id'] + '::')), None)
            helpers = set(ext['files'].get(ufile, {}).get('inlined_helpers', [])) - noinl if ufile else set()
            noinl_added[uid] = helpers
            if helpers:
                noinl |= helpers
                continue
        elif noinl_added.get(uid):
            noinl -= noinl_added[uid]
            noinl_added[uid] = set()
        # the error may sit in a nested inner fn: try the unit itself, then its outer unit
        cand = [uid] + [u for u in annotated if uid.startswith(u + '::')]
        cand = [c for c in cand if c in annotated and c not in bare]
        if cand:
            bare.add(cand[0])
            continue
        # (d) the signature contract of a PRIVATE function no longer type-checks against it (e.g. its
        # return type changed; the error points into a requires/ensures clause): the unit is DEMOTED - its contract is dropped, the
        # function is treated like a helper without contract (rule I1 may write it out at its call
        # sites) and what its callers' contracts need is decided there
        private = {x for fo in ext['files'].values() for x in fo.get('private_units', [])}
        if uid in unit_ids and uid not in demoted and uid in private and error_in_contract_text(res, meta, os.path.basename(gen)):
            demoted.add(uid)
            continue
        # (e) the text of a helper written out by rule I1 may be what does not compile: once more
        # without I1 (the error then sits in the helper itself and (c) applies)
        if not inline_off and any(fo.get('inlined_helpers') for fo in ext['files'].values()):
            inline_off = True
            continue
        break
    ext['demoted_units'] = sorted(demoted)
    ext['inline_off'] = True if inline_off else sorted(noinl)
    ext['opaque_auto'] = sorted(opaque)
    return ext, active, text, meta, gen, res, weak, sorted(bare)


def vacuity_run(flavour, cfg, files, units, bare, opaque, weak, rlimit=40, demoted=(), no_inline=False):
    """second Verus run on the same extraction with `assert(false)` woven in as the first
    statement of every verified unit body: each of these assertions must FAIL.  One that is
    proved means the unit's precondition (with the lemmas and axioms in scope) is contradictory,
    i.e. everything about that unit would be proved vacuously.
    -> (number of probes, ids of units whose probe was PROVED)"""
    ext, active = run_extractor(flavour, cfg, files, units, bare=tuple(bare), opaque=tuple(opaque), vacuity=True, demoted=tuple(demoted), no_inline=no_inline)
    text, meta = assemble(flavour, cfg, files, active, ext, auto_weak=weak)
    gen = os.path.join(BUILD, f'gen_{flavour}_vac.rs')
    open(gen, 'w').write(text)
    res = run_verus(gen, rlimit=rlimit)
    js = res['json']
    if js is None or 'verification-results' not in js or js['verification-results'].get('encountered-vir-error'):
        raise Undecided('vacuity probe run: verus rejected the generated file')
    lines = text.split('\n')
    probe_lines = [i for i, ln in enumerate(lines, start=1) if '// @VACUITY' in ln]
    failed_lines = set()
    for d in res['diags']:
        if d.get('level') != 'error' or 'assertion failed' not in (d.get('message') or ''):
            continue
        for sp in d.get('spans', []):
            if sp.get('file_name', '').endswith(os.path.basename(gen)):
                failed_lines.add(sp['line_start'])
    vacuous = []
    for pl in probe_lines:
        if pl in failed_lines:
            continue
        best = None
        for u in meta['units']:
            if u['start'] <= pl <= (u['end'] or 10**9) and (best is None or u['start'] >= best['start']):
                best = u
        vacuous.append(best['id'] if best else f'line {pl}')
    return len(probe_lines), vacuous
