#!/bin/bash
# usage: lib/confirm_seed.sh <ID> <a|b>   — confirms a seeded change in its scratch worktree /tmp/seed_<ID>
ID=$1; V=$2; W=/tmp/seed_$ID; OUT=/verif/seeded/${ID}_$V
cd $W || exit 9
git checkout -q -- src
mkdir -p $OUT
# keep only this demo in tests/ while running the stock suite
mkdir -p /tmp/seed_hold_$ID && mv tests/*.rs /tmp/seed_hold_$ID/ 2>/dev/null
git apply --check seed_$V.diff || { echo "PATCH DOES NOT APPLY"; mv /tmp/seed_hold_$ID/*.rs tests/; exit 8; }
git apply seed_$V.diff
LIB=$(cargo test --offline --lib 2>&1 | grep -E '^test result' | head -1)
DOC=$(cargo test --offline --doc 2>&1 | grep -E '^test result' | tail -1)
cp /tmp/seed_hold_$ID/seed_${ID}_$V.rs tests/
WITH=$(cargo test --offline --test seed_${ID}_$V 2>&1 | grep -E '^test result|error(\[|:)' | head -3 | tr '\n' ' ')
git checkout -q -- src
WITHOUT=$(cargo test --offline --test seed_${ID}_$V 2>&1 | grep -E '^test result|error(\[|:)' | head -3 | tr '\n' ' ')
mv /tmp/seed_hold_$ID/*.rs tests/ 2>/dev/null
cp seed_$V.diff $OUT/patch.diff; cp tests/seed_${ID}_$V.rs $OUT/demo.rs; cp seed_$V.md $OUT/notes.md 2>/dev/null
echo "$ID $V | lib: $LIB | doc: $DOC | demo with change: $WITH | demo without: $WITHOUT" | tee $OUT/confirm.txt
