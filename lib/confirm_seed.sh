#!/bin/bash
# usage: lib/confirm_seed.sh <name e.g. C01_a> <patch> <demo.rs> [cargo feature args]
# confirms a seeded change in the scratch worktree /tmp/seed_rebase (a worktree of /repo at HEAD):
#   stock suite (lib + doc) passes with the change; the demo fails with it and passes without.
N=$1; PATCH=$2; DEMO=$3; shift 3; FEAT="$@"
W=${SEED_W:-/tmp/seed_rebase}; OUT=/verif/seeded/$N
cd $W || exit 9
git checkout -q -- src; rm -f tests/*.rs; mkdir -p tests $OUT
git apply --check $PATCH || { echo "$N PATCH DOES NOT APPLY"; exit 8; }
git apply $PATCH
LIB=$(cargo test --offline $FEAT --lib 2>&1 | grep -E '^test result' | head -1)
DOC=$(cargo test --offline $FEAT --doc 2>&1 | grep -E '^test result' | tail -1)
cp $DEMO tests/seed_demo.rs
WITH=$(cargo test --offline $FEAT --test seed_demo 2>&1 | grep -E '^test result|^error(\[|:)' | head -2 | tr '\n' ' ')
git checkout -q -- src
WITHOUT=$(cargo test --offline $FEAT --test seed_demo 2>&1 | grep -E '^test result|^error(\[|:)' | head -2 | tr '\n' ' ')
rm -f tests/seed_demo.rs
[ "$PATCH" -ef "$OUT/patch.diff" ] || cp $PATCH $OUT/patch.diff
[ "$DEMO" -ef "$OUT/demo.rs" ] || cp $DEMO $OUT/demo.rs
echo "$N @$(git -C /repo log --format=%h -1) | lib: $LIB | doc: $DOC | demo with change: $WITH | demo without: $WITHOUT" | tee $OUT/confirm.txt
