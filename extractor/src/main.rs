//! Mechanical extractor: re-reads /repo/src on every run and emits, for a fixed
//! list of "units" (functions) and type items, the *original source text* with a
//! small, logged list of span-directed edits (rules R1..R13 of DESIGN.md) plus the
//! contract text woven in from /verif/contracts.  Nothing is pretty-printed: the
//! emitted text is the text of /repo with the listed byte ranges replaced, so the
//! per-unit diff consists exactly of the logged edits.
//!
//! usage: extractor <config.json> <out.json>

use proc_macro2::{Span, TokenStream, TokenTree};
use quote::ToTokens;
use serde_json::{json, Map, Value};
use std::collections::{BTreeMap, HashMap, HashSet};
use syn::punctuated::Punctuated;
use syn::spanned::Spanned;
use syn::visit::{self, Visit};
use syn::*;

#[derive(Clone, Debug)]
struct Edit {
    start: usize,
    end: usize,
    text: String,
    rule: String,
    // order among insertions at the same offset (lower first)
    ord: i32,
}

struct Fail(String);

fn br(s: Span) -> (usize, usize) {
    let r = s.byte_range();
    (r.start, r.end)
}

fn range_of<T: ToTokens>(t: &T) -> (usize, usize) {
    let ts: TokenStream = t.to_token_stream();
    let mut first = None;
    let mut last = None;
    for tt in ts {
        let sp = match &tt {
            TokenTree::Group(g) => {
                // None-delimited groups have no real span of their own
                g.span()
            }
            other => other.span(),
        };
        let (a, b) = br(sp);
        if a == 0 && b == 0 {
            continue;
        }
        if first.is_none() {
            first = Some(a);
        }
        last = Some(b);
    }
    (first.unwrap_or(0), last.unwrap_or(0))
}

// ---------------------------------------------------------------- cfg eval
struct CfgEnv {
    features: HashSet<String>,
    flags: HashSet<String>,          // e.g. "unix"
    kv: HashSet<(String, String)>,   // e.g. ("target_os","linux")
}

impl CfgEnv {
    fn eval_meta(&self, m: &Meta) -> std::result::Result<bool, String> {
        match m {
            Meta::Path(p) => {
                let id = p.get_ident().map(|i| i.to_string()).unwrap_or_default();
                Ok(self.flags.contains(&id))
            }
            Meta::NameValue(nv) => {
                let k = nv.path.get_ident().map(|i| i.to_string()).unwrap_or_default();
                let v = match &nv.value {
                    Expr::Lit(ExprLit { lit: Lit::Str(s), .. }) => s.value(),
                    _ => return Err("cfg value not a string".into()),
                };
                if k == "feature" {
                    Ok(self.features.contains(&v))
                } else {
                    Ok(self.kv.contains(&(k, v)))
                }
            }
            Meta::List(l) => {
                let id = l.path.get_ident().map(|i| i.to_string()).unwrap_or_default();
                let items: Punctuated<Meta, Token![,]> = l
                    .parse_args_with(Punctuated::parse_terminated)
                    .map_err(|e| e.to_string())?;
                match id.as_str() {
                    "any" => {
                        for i in items.iter() {
                            if self.eval_meta(i)? {
                                return Ok(true);
                            }
                        }
                        Ok(false)
                    }
                    "all" => {
                        for i in items.iter() {
                            if !self.eval_meta(i)? {
                                return Ok(false);
                            }
                        }
                        Ok(true)
                    }
                    "not" => {
                        let i = items.first().ok_or("empty not()")?;
                        Ok(!self.eval_meta(i)?)
                    }
                    other => Err(format!("unknown cfg predicate {other}")),
                }
            }
        }
    }

    /// true if all #[cfg] attributes in `attrs` hold
    fn attrs_on(&self, attrs: &[Attribute]) -> std::result::Result<bool, String> {
        for a in attrs {
            if a.path().is_ident("cfg") {
                let l = a.meta.require_list().map_err(|e| e.to_string())?;
                let inner: Meta = l.parse_args().map_err(|e| e.to_string())?;
                if !self.eval_meta(&inner)? {
                    return Ok(false);
                }
            }
        }
        Ok(true)
    }
}

// ---------------------------------------------------------------- config
#[derive(Default, Clone)]
struct UnitCfg {
    id: String,
    world: String, // "mut" | "ro" | "none"
    ret: Option<String>,
    sig_contract: String,
    attrs: String,
    loops: HashMap<usize, String>,
    closures: HashMap<usize, Value>,
    closures_by_text: Vec<(String, Value)>,
    hints: Vec<Value>,
    body_open: String, // text inserted right after the body's opening brace
    rename: Option<String>,
    inherent: bool,
    keep_generics: bool,
    drop_body: bool, // emit as external_body (assumed contract) — body replaced by unimplemented!()
    str_slices: Vec<String>, // R15: identifiers whose `&X[a..b]` is a string slice
    try_conv: bool,          // R17: desugar `e?` into match + `.into()`
    try_poll: bool,          // R17b: the fn returns Poll<Result<..>>
    /// parameter and local names of the function, in declaration order, as recorded when the
    /// contract was last baselined (rule A1: annotations follow pure renames)
    locals_base: Vec<String>,
    /// M1: the signature (types only) the contract was written against
    sig_base: String,
}

struct Cfg {
    env: CfgEnv,
    roots: HashSet<String>,
    macro_map: HashMap<String, String>,
    /// R1b: calls of `<..>::A::b(..)` (last two path segments) redirected to a shim function
    /// that states a precondition the std function panics on (e.g. `Vec::with_capacity`)
    path_map: HashMap<String, String>,
    eff_path: HashMap<String, String>,
    eff_method: HashMap<String, String>,
    /// method effects derived from units (not listed in contracts/config.json): applied only at
    /// calls whose argument count matches a method of that name defined in the covered files
    eff_method_derived: HashSet<String>,
    /// auto-included helpers / items the verifier rejected: helpers keep only their signature
    /// (external_body, no contract), items are left out
    opaque_auto: HashSet<String>,
    method_argc: HashMap<String, HashSet<usize>>,
    /// module stem -> names called as `<..>::<stem>::name(..)` anywhere in the covered files
    /// (a function of that module that has no contract yet is auto-included like a same-file helper)
    cross_calls: HashMap<String, HashSet<String>>,
    iter_renames: HashMap<String, String>,
    asref_map: HashMap<String, String>, // "Path" -> "&Path"
    opaque_fmt_in: HashSet<String>,     // method names whose closure args get opaque format!
    world_ty: String,
    /// vacuity probe run: every verified unit body starts with `assert(false)`, which must FAIL
    vacuity_probe: bool,
    /// I1 switched off for this run (fallback when written-out helper text does not compile)
    no_inline_run: bool,
    /// I1 is not applied to these contract-less helpers (unit ids)
    no_inline_ids: HashSet<String>,
    /// second pass: effect keys that belong to contract-less functions of OTHER files
    auto_keys: HashSet<String>,
}

/// does the closure body contain a `return` or `?` of its own (not inside a nested closure / item)?
/// Such a body cannot be written out inline: the jump would leave the enclosing function.
fn leaves_closure(body: &Expr) -> bool {
    struct V(bool);
    impl<'ast> Visit<'ast> for V {
        fn visit_expr_return(&mut self, _r: &'ast ExprReturn) {
            self.0 = true;
        }
        fn visit_expr_try(&mut self, _r: &'ast ExprTry) {
            self.0 = true;
        }
        fn visit_expr_closure(&mut self, _c: &'ast ExprClosure) {}
        fn visit_item(&mut self, _i: &'ast Item) {}
    }
    let mut v = V(false);
    v.visit_expr(body);
    v.0
}

/// R26 helper: nothing disqualifies the copied arm body at the moment
fn leaves_closure_only_break(_e: &Expr) -> bool {
    false
}

/// I1 applicability: no `return` / `?` (they would leave the caller) and no loops (a loop needs a
/// contract of its own: such a helper stays a separate, contract-less function)
fn block_leaves(b: &Block) -> bool {
    struct V(bool);
    impl<'ast> Visit<'ast> for V {
        fn visit_expr_return(&mut self, _r: &'ast ExprReturn) {
            self.0 = true;
        }
        fn visit_expr_loop(&mut self, _r: &'ast ExprLoop) {
            self.0 = true;
        }
        fn visit_expr_while(&mut self, _r: &'ast ExprWhile) {
            self.0 = true;
        }
        fn visit_expr_for_loop(&mut self, _r: &'ast ExprForLoop) {
            self.0 = true;
        }
        fn visit_expr_try(&mut self, _r: &'ast ExprTry) {
            self.0 = true;
        }
        fn visit_expr_closure(&mut self, _c: &'ast ExprClosure) {}
        fn visit_item(&mut self, _i: &'ast Item) {}
    }
    let mut v = V(false);
    v.visit_block(b);
    v.0
}

/// I1 applicability classes: None = has a loop (needs a contract of its own); Some(0) = never
/// leaves early; Some(1) = leaves only through `?` and `return Err(..)` (means the same where the
/// call is the operand of a `?` in a function with the same error type); Some(2) = other `return`s
/// (means the same only where the call is the tail expression of a function with the same
/// return type)
fn leave_kind(b: &Block) -> Option<u8> {
    struct V { lp: bool, k: u8 }
    impl<'ast> Visit<'ast> for V {
        fn visit_expr_return(&mut self, r: &'ast ExprReturn) {
            let is_err = match r.expr.as_deref() {
                Some(Expr::Call(c)) => matches!(&*c.func, Expr::Path(p) if p.path.is_ident("Err")),
                _ => false,
            };
            self.k = self.k.max(if is_err { 1 } else { 2 });
            visit::visit_expr_return(self, r);
        }
        fn visit_expr_loop(&mut self, _r: &'ast ExprLoop) { self.lp = true; }
        fn visit_expr_while(&mut self, _r: &'ast ExprWhile) { self.lp = true; }
        fn visit_expr_for_loop(&mut self, _r: &'ast ExprForLoop) { self.lp = true; }
        fn visit_expr_try(&mut self, r: &'ast ExprTry) {
            self.k = self.k.max(1);
            visit::visit_expr_try(self, r);
        }
        fn visit_expr_closure(&mut self, _c: &'ast ExprClosure) {}
        fn visit_expr_async(&mut self, _c: &'ast ExprAsync) { self.k = 2; self.lp = true; }
        fn visit_item(&mut self, _i: &'ast Item) {}
    }
    let mut v = V { lp: false, k: 0 };
    v.visit_block(b);
    if v.lp { None } else { Some(v.k) }
}

/// the part of a (token-normalised) return type that decides what `?` / `return Err(..)` mean:
/// the Result alias path, plus the explicit error type when there is one
fn err_key(ret_norm: &str) -> Option<String> {
    let t: String = ret_norm.trim_start_matches("->").chars().filter(|c| !c.is_whitespace()).collect();
    let lt = t.find('<')?;
    let head = &t[..lt];
    if !head.ends_with("Result") || !t.ends_with('>') {
        return None;
    }
    let args = &t[lt + 1..t.len() - 1];
    let mut depth = 0i32;
    let mut second = None;
    for (i, c) in args.char_indices() {
        match c {
            '<' | '(' | '[' => depth += 1,
            '>' | ')' | ']' => depth -= 1,
            ',' if depth == 0 && second.is_none() => second = Some(args[i + 1..].to_string()),
            _ => {}
        }
    }
    Some(format!("{}|{}", head, second.unwrap_or_default()))
}

/// M1: asyncness, parameter types and return type of a function, token-normalised
fn sig_key(sig: &Signature) -> String {
    let mut t = String::new();
    if sig.asyncness.is_some() {
        t.push_str("async ");
    }
    for a in sig.inputs.iter() {
        match a {
            FnArg::Typed(pt) => t.push_str(&pt.ty.to_token_stream().to_string()),
            FnArg::Receiver(r) => t.push_str(&r.to_token_stream().to_string()),
        }
        t.push_str(" , ");
    }
    t.push_str(&sig.output.to_token_stream().to_string());
    t
}


/// I1r: rewrite the body of a contract-less helper that leaves early (`return`, `?`) into an
/// expression WITHOUT early exits that has the same value - the rest of the block is moved into
/// the branches that continue (`if c { return X; } REST` -> `if c { X } else { REST }`,
/// `let p = e?; REST` -> `match e { Ok(v) => { let p = v; REST }, Err(e) => Err(e.into()) }`,
/// `let p = match e { P => v, _ => return X }; REST` -> `match e { P => { let p = v; REST }, _ => X }`).
/// Purely syntactic; gives up (None) on any shape it does not know.  The result can be written
/// out at ANY call site (rule I1), not only under a `?` or in tail position.
struct Elim<'a> {
    src: &'a str,
    edits: &'a [Edit],
    /// what `?` works on in this function: 1 = Result, 2 = Option
    try_kind: u8,
    fuel: usize,
    /// a piece of text was taken from inside a larger replacement made by another rule: the
    /// pieces would not add up to that rule's output - give up
    bad: std::cell::Cell<bool>,
}

#[derive(Clone, Copy)]
enum WorkItem<'s> {
    Stmts(&'s [Stmt], bool),
    One(&'s Expr, bool),
}

impl<'a> Elim<'a> {
    fn t(&self, r: (usize, usize)) -> String {
        if self.edits.iter().any(|e| e.start < e.end && e.start <= r.0 && r.1 <= e.end && (e.start, e.end) != r) {
            self.bad.set(true);
        }
        if self.edits.iter().any(|e| (e.start < r.0 && r.0 < e.end) || (e.start < r.1 && r.1 < e.end)) {
            self.bad.set(true);
        }
        let mut errs = vec![];
        let out = apply_edits(self.src, r, self.edits, &mut errs).0;
        if !errs.is_empty() {
            self.bad.set(true);
        }
        out
    }
    fn stmt_leaves(s: &Stmt) -> bool {
        match s {
            Stmt::Expr(e, _) => leaves_closure(e),
            Stmt::Local(l) => l.init.as_ref().map(|i| leaves_closure(&i.expr) || i.diverge.as_ref().map(|d| leaves_closure(&d.1)).unwrap_or(false)).unwrap_or(false),
            Stmt::Macro(_) => false,
            Stmt::Item(_) => false,
        }
    }
    fn branch<'s>(e: &'s Expr, value: bool) -> WorkItem<'s> {
        match e {
            Expr::Block(b) if b.label.is_none() && b.attrs.is_empty() => WorkItem::Stmts(&b.block.stmts, value),
            other => WorkItem::One(other, value),
        }
    }
    fn try_arm(&self) -> Option<(&'static str, &'static str)> {
        match self.try_kind {
            1 => Some(("Ok", "Err(__e) => Err(__e.into())")),
            2 => Some(("Some", "None => None")),
            _ => None,
        }
    }
    /// `work`: what is still to be evaluated, in order; the LAST item's flag says whether its tail
    /// expression is the function's value
    fn seq<'s>(&mut self, work: &[WorkItem<'s>]) -> Option<String> {
        if self.fuel == 0 {
            return None;
        }
        self.fuel -= 1;
        let mut out = String::from("{ ");
        for (wi, w) in work.iter().enumerate() {
            let (stmts, one, value): (&[Stmt], Option<&Expr>, bool) = match w {
                WorkItem::Stmts(s, v) => (s, None, *v),
                WorkItem::One(e, v) => (&[], Some(*e), *v),
            };
            let n = stmts.len() + if one.is_some() { 1 } else { 0 };
            for i in 0..n {
                // the i-th element as (expr-or-stmt, is tail)
                let st: Option<&Stmt> = if one.is_some() { None } else { Some(&stmts[i]) };
                let (expr, is_tail): (Option<&Expr>, bool) = match (st, one) {
                    (Some(Stmt::Expr(e, semi)), _) => (Some(e), semi.is_none() && i + 1 == n),
                    (None, Some(e)) => (Some(e), true),
                    _ => (None, false),
                };
                let is_value = is_tail && value;
                let leaves = match (st, one) {
                    (Some(s), _) => Self::stmt_leaves(s),
                    (None, Some(e)) => leaves_closure(e),
                    _ => false,
                };
                // what follows this element
                let mut rest: Vec<WorkItem<'s>> = vec![];
                if one.is_none() && i + 1 < n {
                    rest.push(WorkItem::Stmts(&stmts[i + 1..], value));
                }
                rest.extend_from_slice(&work[wi + 1..]);
                if !leaves {
                    match (st, expr) {
                        (_, Some(e)) if is_tail => {
                            out.push_str(&self.t(range_of(e)));
                            if !is_value || !rest.is_empty() {
                                out.push_str("; ");
                            }
                        }
                        (Some(s), _) => {
                            out.push_str(&self.t(range_of(s)));
                            out.push(' ');
                        }
                        _ => return None,
                    }
                    continue;
                }
                // the first element that can leave: the rest moves into its continuing branches
                let tail_value = is_value && rest.is_empty();
                if let Some(e) = expr {
                    match e {
                        Expr::Return(r) => {
                            match &r.expr {
                                Some(v) => {
                                    if leaves_closure(v) {
                                        return None;
                                    }
                                    out.push_str(&self.t(range_of(&**v)));
                                }
                                None => out.push_str("()"),
                            }
                            out.push_str(" }");
                            return Some(out);
                        }
                        Expr::If(ife) if ife.attrs.is_empty() && leaves_closure(&ife.cond) => {
                            // `if let P = a()? { A } [else { B }]` / `if a()?.b() { .. }`: the `?`s of the
                            // condition's receiver spine first, then the `if` on what is left
                            let mut a = vec![WorkItem::Stmts(&ife.then_branch.stmts, tail_value)];
                            a.extend_from_slice(&rest);
                            let mut b = match &ife.else_branch {
                                Some((_, eb)) => vec![Self::branch(eb, tail_value)],
                                None => vec![],
                            };
                            b.extend_from_slice(&rest);
                            if b.is_empty() {
                                return None;
                            }
                            let (scrut, head): (&Expr, String) = match &*ife.cond {
                                Expr::Let(l) => (&*l.expr, format!("let {} = ", self.t(range_of(&*l.pat)))),
                                other => (other, String::new()),
                            };
                            let body = self.hoist_tries(scrut, move |me, left| {
                                let ta = me.seq(&a)?;
                                let tb = me.seq(&b)?;
                                Some(format!("{{ if {head}{left} {ta} else {tb} }}"))
                            })?;
                            out.push_str(&body);
                            out.push_str(" }");
                            return Some(out);
                        }
                        Expr::If(ife) if ife.attrs.is_empty() => {
                            let mut a = vec![WorkItem::Stmts(&ife.then_branch.stmts, tail_value)];
                            a.extend_from_slice(&rest);
                            let mut b = match &ife.else_branch {
                                Some((_, eb)) => vec![Self::branch(eb, tail_value)],
                                None => vec![],
                            };
                            b.extend_from_slice(&rest);
                            if b.is_empty() {
                                return None;
                            }
                            let ta = self.seq(&a)?;
                            let tb = self.seq(&b)?;
                            out.push_str(&format!("if {} {} else {} }}", self.t(range_of(&*ife.cond)), ta, tb));
                            return Some(out);
                        }
                        Expr::Match(m) if m.attrs.is_empty() => {
                            if leaves_closure(&m.expr) {
                                return None;
                            }
                            let mut arms = String::new();
                            for arm in &m.arms {
                                if arm.guard.as_ref().map(|g| leaves_closure(&g.1)).unwrap_or(false) {
                                    return None;
                                }
                                let mut a = vec![Self::branch(&arm.body, tail_value)];
                                a.extend_from_slice(&rest);
                                let ta = self.seq(&a)?;
                                let g = arm.guard.as_ref().map(|g| format!(" if {}", self.t(range_of(&*g.1)))).unwrap_or_default();
                                arms.push_str(&format!("{}{} => {}, ", self.t(range_of(&arm.pat)), g, ta));
                            }
                            out.push_str(&format!("match {} {{ {} }} }}", self.t(range_of(&*m.expr)), arms));
                            return Some(out);
                        }
                        Expr::Try(t) if !tail_value && !leaves_closure(&t.expr) => {
                            // `X?;` in statement position
                            if rest.is_empty() {
                                return None;
                            }
                            let (okc, errarm) = self.try_arm()?;
                            let tr = self.seq(&rest)?;
                            out.push_str(&format!("match {} {{ {}(_) => {}, {} }} }}", self.t(range_of(&*t.expr)), okc, tr, errarm));
                            return Some(out);
                        }
                        other => {
                            // `a?.b()?.c()` as a statement or as the value: spine `?`s one after the other
                            let rest2 = rest.clone();
                            let body = self.hoist_tries(other, move |me, left| {
                                if tail_value {
                                    Some(format!("{{ {} }}", left))
                                } else {
                                    let tr = me.seq(&rest2)?;
                                    Some(format!("{{ {}; {} }}", left, tr))
                                }
                            })?;
                            out.push_str(&body);
                            out.push_str(" }");
                            return Some(out);
                        }
                    }
                }
                if let Some(Stmt::Local(l)) = st {
                    if !l.attrs.is_empty() || rest.is_empty() {
                        return None;
                    }
                    let init = l.init.as_ref()?;
                    let pat = self.t(range_of(&l.pat));
                    if let Some((_, els)) = &init.diverge {
                        // `let PAT = E else { .. return .. };`
                        if leaves_closure(&init.expr) {
                            return None;
                        }
                        let tr = self.seq(&rest)?;
                        let te = self.seq(&[Self::branch(els, true)])?;
                        out.push_str(&format!("if let {} = {} {} else {} }}", pat, self.t(range_of(&*init.expr)), tr, te));
                        return Some(out);
                    }
                    match &*init.expr {
                        Expr::Try(t) if !leaves_closure(&t.expr) => {
                            let (okc, errarm) = self.try_arm()?;
                            let tr = self.seq(&rest)?;
                            out.push_str(&format!("match {} {{ {}(__v) => {{ let {} = __v; {} }}, {} }} }}", self.t(range_of(&*t.expr)), okc, pat, tr, errarm));
                            return Some(out);
                        }
                        Expr::Match(m) if m.attrs.is_empty() => {
                            if leaves_closure(&m.expr) {
                                return None;
                            }
                            let mut arms = String::new();
                            for arm in &m.arms {
                                if arm.guard.as_ref().map(|g| leaves_closure(&g.1)).unwrap_or(false) {
                                    return None;
                                }
                                let g = arm.guard.as_ref().map(|g| format!(" if {}", self.t(range_of(&*g.1)))).unwrap_or_default();
                                let body = if leaves_closure(&arm.body) {
                                    // the arm must leave on every path: its own value is then the function's
                                    if !Self::always_leaves(&arm.body) {
                                        return None;
                                    }
                                    self.seq(&[Self::branch(&arm.body, true)])?
                                } else {
                                    let tr = self.seq(&rest)?;
                                    format!("{{ let {} = {}; {} }}", pat, self.t(range_of(&*arm.body)), tr)
                                };
                                arms.push_str(&format!("{}{} => {}, ", self.t(range_of(&arm.pat)), g, body));
                            }
                            out.push_str(&format!("match {} {{ {} }} }}", self.t(range_of(&*m.expr)), arms));
                            return Some(out);
                        }
                        other => {
                            // `let p = a?.b()?.c();` - the `?`s on the receiver spine, one after the other
                            let ty = l.pat.to_token_stream().to_string();
                            let _ = ty;
                            let rest2 = rest.clone();
                            let pat2 = pat.clone();
                            let body = self.hoist_tries(other, move |me, left| {
                                let tr = me.seq(&rest2)?;
                                Some(format!("{{ let {} = {}; {} }}", pat2, left, tr))
                            })?;
                            out.push_str(&body);
                            out.push_str(" }");
                            return Some(out);
                        }
                    }
                }
                return None;
            }
        }
        // nothing leaves: the block as it is (a body without tail expression has value `()`)
        out.push('}');
        Some(out)
    }
    /// the `?` applications on the receiver spine of `e` (the parts that are evaluated first, left to
    /// right: receiver of a method call, base of a field / index / await / reference / cast / paren),
    /// innermost first; None when some `?` / `return` sits anywhere else (an argument, a block, ..)
    fn spine_tries<'s>(e: &'s Expr) -> Option<Vec<&'s ExprTry>> {
        let mut out: Vec<&'s ExprTry> = vec![];
        let mut cur = e;
        loop {
            match cur {
                Expr::Try(t) => {
                    out.push(t);
                    cur = &t.expr;
                }
                Expr::MethodCall(m) => {
                    if m.args.iter().any(|a| leaves_closure(a)) {
                        return None;
                    }
                    cur = &m.receiver;
                }
                Expr::Field(f) => cur = &f.base,
                Expr::Await(a) => cur = &a.base,
                Expr::Paren(p) => cur = &p.expr,
                Expr::Reference(r) => cur = &r.expr,
                Expr::Cast(c) => cur = &c.expr,
                Expr::Index(i) => {
                    if leaves_closure(&i.index) {
                        return None;
                    }
                    cur = &i.expr;
                }
                other => {
                    if leaves_closure(other) {
                        return None;
                    }
                    break;
                }
            }
        }
        out.reverse();
        Some(out)
    }
    /// `e` with its spine `?`s evaluated one after the other into temporaries; `k` gets the text of
    /// what is left of `e` and returns the continuation
    fn hoist_tries<F: FnOnce(&mut Self, String) -> Option<String>>(&mut self, e: &Expr, k: F) -> Option<String> {
        let tries = Self::spine_tries(e)?;
        if tries.is_empty() {
            return None;
        }
        let (okc, errarm) = self.try_arm()?;
        let mut heads: Vec<String> = vec![];
        let mut prev: Option<((usize, usize), String)> = None;
        for (i, t) in tries.iter().enumerate() {
            let op = range_of(&*t.expr);
            let op_text = match &prev {
                None => self.t(op),
                Some((pr, name)) => format!("{}{}{}", self.t((op.0, pr.0)), name, self.t((pr.1, op.1))),
            };
            heads.push(format!("match {op_text} {{ {okc}(__t{i}) => "));
            prev = Some((range_of(*t), format!("__t{i}")));
        }
        let er = range_of(e);
        let (pr, name) = prev.unwrap();
        let rest_text = format!("{}{}{}", self.t((er.0, pr.0)), name, self.t((pr.1, er.1)));
        let inner = k(self, rest_text)?;
        let mut out = String::new();
        for h in &heads {
            out.push_str(h);
        }
        out.push_str(&inner);
        for _ in &heads {
            out.push_str(&format!(", {errarm} }}"));
        }
        Some(out)
    }
    /// every path through `e` ends in `return` (conservative)
    fn always_leaves(e: &Expr) -> bool {
        match e {
            Expr::Return(_) => true,
            Expr::Block(b) => match b.block.stmts.last() {
                Some(Stmt::Expr(x, _)) => Self::always_leaves(x),
                _ => false,
            },
            Expr::If(i) => match &i.else_branch {
                Some((_, eb)) => {
                    let th = match i.then_branch.stmts.last() { Some(Stmt::Expr(x, _)) => Self::always_leaves(x), _ => false };
                    th && Self::always_leaves(eb)
                }
                None => false,
            },
            Expr::Match(m) => m.arms.iter().all(|a| Self::always_leaves(&a.body)),
            _ => false,
        }
    }
}

/// A1: parameter names, then `let` / `for` / `if let` / match-arm bound names, in source order
fn fn_locals(sig: &Signature, block: Option<&Block>) -> Vec<String> {
    struct L {
        out: Vec<String>,
    }
    impl<'ast> Visit<'ast> for L {
        fn visit_pat_ident(&mut self, p: &'ast PatIdent) {
            self.out.push(p.ident.to_string());
            visit::visit_pat_ident(self, p);
        }
        fn visit_item(&mut self, _i: &'ast Item) {}
    }
    let mut l = L { out: vec![] };
    for inp in sig.inputs.iter() {
        if let FnArg::Typed(pt) = inp {
            l.visit_pat(&pt.pat);
        }
    }
    if let Some(b) = block {
        l.visit_block(b);
    }
    l.out
}

/// simultaneous renaming of identifiers in annotation text (not after `.`, not before `::`)
fn subst_idents(text: &str, map: &HashMap<String, String>) -> String {
    let b: Vec<char> = text.chars().collect();
    let mut out = String::new();
    let mut i = 0;
    while i < b.len() {
        let c = b[i];
        if c.is_alphabetic() || c == '_' {
            let st = i;
            while i < b.len() && (b[i].is_alphanumeric() || b[i] == '_') {
                i += 1;
            }
            let w: String = b[st..i].iter().collect();
            let prev_dot = st > 0 && b[st - 1] == '.' && !(st > 1 && b[st - 2] == '.');
            let next_path = i + 1 < b.len() && b[i] == ':' && b[i + 1] == ':';
            match map.get(&w) {
                Some(n) if !prev_dot && (!next_path || w == "Self") => out.push_str(n),
                _ => out.push_str(&w),
            }
        } else {
            out.push(c);
            i += 1;
        }
    }
    out
}

fn jstr(v: &Value, k: &str) -> String {
    v.get(k).and_then(|x| x.as_str()).unwrap_or("").to_string()
}

fn unit_from(v: &Value) -> UnitCfg {
    let mut u = UnitCfg::default();
    u.id = jstr(v, "id");
    u.world = jstr(v, "world");
    if u.world.is_empty() {
        u.world = "none".into();
    }
    u.ret = v.get("ret").and_then(|x| x.as_str()).map(|s| s.to_string());
    u.sig_contract = jstr(v, "sig_contract");
    u.attrs = jstr(v, "attrs");
    u.body_open = jstr(v, "body_open");
    u.rename = v.get("rename").and_then(|x| x.as_str()).map(|s| s.to_string());
    u.inherent = v.get("inherent").and_then(|x| x.as_bool()).unwrap_or(false);
    u.keep_generics = v.get("keep_generics").and_then(|x| x.as_bool()).unwrap_or(false);
    u.drop_body = v.get("drop_body").and_then(|x| x.as_bool()).unwrap_or(false);
    u.try_conv = v.get("try_conv").and_then(|x| x.as_bool()).unwrap_or(false);
    u.sig_base = jstr(v, "sig_base");
    u.locals_base = v.get("locals").and_then(|x| x.as_array()).map(|a| a.iter().map(|x| x.as_str().unwrap_or("").to_string()).collect()).unwrap_or_default();
    let bare = v.get("bare").and_then(|x| x.as_bool()).unwrap_or(false);
    if let Some(a) = v.get("str_slices").and_then(|x| x.as_array()) {
        u.str_slices = a.iter().map(|x| x.as_str().unwrap_or("").to_string()).collect();
    }
    if let Some(m) = v.get("loops").and_then(|x| x.as_object()) {
        for (k, t) in m {
            u.loops.insert(k.parse().unwrap(), t.as_str().unwrap_or("").to_string());
        }
    }
    if let Some(m) = v.get("closures").and_then(|x| x.as_object()) {
        for (k, t) in m {
            match k.parse::<usize>() {
                Ok(n) => { u.closures.insert(n, t.clone()); }
                Err(_) => u.closures_by_text.push((k.split_whitespace().collect::<Vec<_>>().join(" "), t.clone())),
            }
        }
    }
    if let Some(a) = v.get("hints").and_then(|x| x.as_array()) {
        u.hints = a.clone();
    }
    if bare {
        u.loops.clear();
        u.closures.clear();
        u.closures_by_text.clear();
        u.hints.clear();
    }
    u
}

// ---------------------------------------------------------------- per-file processing
struct FileCtx<'a> {
    cfg: &'a Cfg,
    src: &'a str,
    edits: Vec<Edit>,
    rule_counts: BTreeMap<String, usize>,
    errors: Vec<String>,
    warnings: Vec<String>,
    degraded: Vec<String>,
    extra_eff: HashMap<String, String>,
    fname: String,
    ro_violations: Vec<String>,
    /// field name -> declared type text, for the structs of this file (used to tell a
    /// `Vec::set_len` from a `File::set_len` when a method effect is name-directed)
    field_types: HashMap<String, String>,
    /// unit id -> parameter / local names in declaration order (rule A1)
    locals_out: BTreeMap<String, Vec<String>>,
    /// units whose function is not `pub` (private helpers): only these may be demoted
    private_units: Vec<String>,
    /// N1: functions of the code whose name collides with a spec function of the overlay: renamed
    code_renames: HashMap<String, String>,
    /// nested `fn`s inside a unit body that the contracts do not list: "outer/inner" -> world mode
    auto_nested: HashMap<String, String>,
    /// I1 for such a nested fn called in TAIL position of its outer function with the same return
    /// type (the `fn outer<P: AsRef<..>>(..) { fn inner(..) {..} inner(..) }` idiom): "outer/inner" ->
    /// byte range of that call.  There `return` / `?` inside the nested body mean the same inlined.
    tail_calls: HashMap<String, (usize, usize)>,
    /// I1: same-file helpers without a contract whose body is written out at their call sites
    inline_map: HashMap<String, InlineInfo>,
    no_inline: bool,
    /// no vacuity probe for the function being processed (an unlisted nested fn)
    no_probe: bool,
    /// T1: "unit id|why" - places where the proof context of a unit lost information relative to
    /// what a contract would give: a call to a function without a contract that was not written
    /// out (I1), a loop without invariant, a dropped annotation, an unspecified task body
    taints: Vec<String>,
    /// M1: module-level functions that carry the contract of a former nested fn
    rebound_names: HashSet<String>,
}

#[derive(Clone)]
struct InlineInfo {
    /// (name, rendered type, `mut`)
    params: Vec<(String, String, bool)>,
    ret: Option<String>,
    body: String,
    world: String,
    /// for an associated function: the impl's type key (call sites are `Self::f(..)` / `Type::f(..)`)
    owner: Option<String>,
    /// T1: what the helper's own body lost (calls to other contract-less functions, ...)
    taints: Vec<String>,
    /// `leave_kind` of the body, the token-normalised return type, `async fn`
    leaves: u8,
    ret_norm: String,
    is_async: bool,
    /// I1m (methods): 0 = no receiver, 1 = `&self`, 2 = `&mut self`, 3 = `self`
    recv: u8,
    /// I1r: the body with its early exits written out as branches (None: shape not handled)
    body_flat: Option<String>,
    /// unit id of the helper (`auto:<file>:<name>`)
    hid: String,
}

impl<'a> FileCtx<'a> {
    fn edit(&mut self, start: usize, end: usize, text: impl Into<String>, rule: &str) {
        self.edit_ord(start, end, text, rule, 0)
    }
    fn edit_ord(&mut self, start: usize, end: usize, text: impl Into<String>, rule: &str, ord: i32) {
        *self.rule_counts.entry(rule.to_string()).or_insert(0) += 1;
        self.edits.push(Edit { start, end, text: text.into(), rule: rule.to_string(), ord });
    }
    fn text(&self, r: (usize, usize)) -> &str {
        &self.src[r.0..r.1]
    }
    fn strip_attrs(&mut self, attrs: &[Attribute]) {
        for a in attrs {
            let r = range_of(a);
            // swallow the rest of the line if only whitespace follows
            let mut end = r.1;
            let bytes = self.src.as_bytes();
            while end < bytes.len() && (bytes[end] == b' ' || bytes[end] == b'\t') {
                end += 1;
            }
            if end < bytes.len() && bytes[end] == b'\n' {
                end += 1;
            }
            self.edit(r.0, end, "", "R1.attr");
        }
    }
}

/// Visitor applying expression/type level rules inside a kept item.
struct BodyV<'a, 'b> {
    fc: &'b mut FileCtx<'a>,
    world: String,          // world mode of the enclosing unit
    unit: Option<UnitCfg>,  // directives for loops/closures/hints
    loop_no: usize,
    closure_no: usize,
    in_opaque_ctx: usize,   // depth inside a with_context(...) argument
    asref_params: HashMap<String, String>, // generic name -> replacement type
    nested_units: &'b HashMap<String, UnitCfg>, // nested fn name -> cfg  (key: "<outer>/<inner>")
    outer_name: String,
    used_loops: HashSet<usize>,
    used_closures: HashSet<usize>,
    used_text_closures: HashSet<String>,
    closure_ctx: Vec<String>,
    closure_rewritten: bool,
    closure_depth: usize,
    /// R8: the call being visited is the operand of `.await`
    awaited_call: bool,
    call_counts: HashMap<String, usize>,
    calls_seen: Vec<String>,
    claimed_hints: HashSet<usize>,
    closure_counts: HashMap<String, usize>,
    /// I1: token-normalised return type of the function, the call that is its tail expression,
    /// the call that is the operand of the `?` being visited
    ret_norm: String,
    tail_call: Vec<(usize, usize)>,
    try_operand: Option<(usize, usize)>,
    /// the call that is the whole body of the closure being visited (`|x| helper(&x)`)
    closure_tail: Option<(usize, usize)>,
    /// R12b: parameters whose type is an `AsRef<..>` generic instantiated at its reference type
    asref_idents: HashSet<String>,
}

fn path_key2(p: &Path) -> (Option<String>, String) {
    let n = p.segments.len();
    let last = p.segments[n - 1].ident.to_string();
    if n >= 2 {
        (Some(format!("{}::{}", p.segments[n - 2].ident, last)), last)
    } else {
        (None, last)
    }
}

impl<'a, 'b> BodyV<'a, 'b> {
    fn world_arg(&self, callee_mode: &str) -> Option<String> {
        match (self.world.as_str(), callee_mode) {
            ("mut", "mut") => Some("Tracked(w)".into()),
            ("mut", "ro") => Some("Tracked(&*w)".into()),
            ("ro", "ro") => Some("Tracked(w)".into()),
            ("ro", "mut") => None, // error reported by caller
            _ => None,
        }
    }

    fn add_world_arg(&mut self, paren_close: Span, has_args: bool, trailing_comma: bool, mode: &str, what: &str) {
        if self.world == "none" {
            self.fc.errors.push(format!(
                "unit {} has no ghost world but calls effectful `{}`",
                self.outer_name, what
            ));
            return;
        }
        match self.world_arg(mode) {
            Some(arg) => {
                let (a, _) = br(paren_close);
                let txt = if has_args && !trailing_comma { format!(", {arg}") } else { arg };
                self.fc.edit_ord(a, a, txt, "R3.call", 5);
            }
            None => {
                // a unit whose contract says "read-only" calls something that mutates the file
                // system: that is itself the violation (C15); the call site gets a ghost world
                // out of thin air so that the rest of the file can still be verified
                self.fc.ro_violations.push(format!("{}|{}", self.unit.as_ref().map(|u| u.id.clone()).unwrap_or_default(), what));
                let (a, _) = br(paren_close);
                let arg = "crate::shims::ro_violation_world()";
                let txt = if has_args && !trailing_comma { format!(", {arg}") } else { arg.to_string() };
                self.fc.edit_ord(a, a, txt, "R3.ro_violation", 5);
            }
        }
    }

    fn rewrite_root_path(&mut self, p: &Path, force: bool) {
        if p.leading_colon.is_some() {
            return;
        }
        let first = p.segments[0].ident.to_string();
        if self.fc.cfg.roots.contains(&first) && (p.segments.len() >= 2 || force) {
            let (a, _) = br(p.segments[0].ident.span());
            self.fc.edit_ord(a, a, "crate::shims::", "R1.path", -5);
        }
    }

    fn handle_format(&mut self, mac: &Macro, whole: (usize, usize)) {
        // parse: literal, then args
        let parsed: Result<Punctuated<Expr, Token![,]>> = mac.parse_body_with(Punctuated::parse_terminated);
        let args = match parsed {
            Ok(a) => a,
            Err(e) => {
                self.fc.errors.push(format!("format! args unparsable: {e}"));
                return;
            }
        };
        let mut it = args.iter();
        let lit = match it.next() {
            Some(Expr::Lit(ExprLit { lit: Lit::Str(s), .. })) => s.clone(),
            _ => {
                self.fc.errors.push("format! without literal first arg".into());
                return;
            }
        };
        let rest: Vec<&Expr> = it.collect();
        if self.in_opaque_ctx > 0 {
            // error/context message: text is opaque, explicit arguments are still evaluated
            let mut t = String::from("opaque_msg!(");
            for (i, e) in rest.iter().enumerate() {
                if i > 0 {
                    t.push_str(", ");
                }
                // arguments are kept verbatim *with* their own inner edits: we only
                // replace the macro head and the literal, so visit the args.
                let r = range_of(*e);
                t.push_str(&format!("\u{1}{}:{}\u{2}", r.0, r.1));
            }
            t.push(')');
            // Instead of splicing nested edits inside replacement text, do it with
            // two edits: replace [whole.start, first_arg.start) and the tail.
            if rest.is_empty() {
                self.fc.edit(whole.0, whole.1, "opaque_msg!()", "R4.opaque");
            } else {
                let first = range_of(rest[0]);
                let last = range_of(rest[rest.len() - 1]);
                self.fc.edit(whole.0, first.0, "opaque_msg!(", "R4.opaque");
                self.fc.edit(last.1, whole.1, ")", "R4.opaque.close");
                for e in rest {
                    self.visit_expr(e);
                }
            }
            return;
        }
        // visible format!: only `{}` and `{IDENT}` placeholders, no escapes of braces
        let s = lit.value();
        let mut pieces: Vec<String> = Vec::new();
        let mut cur = String::new();
        let mut argi = 0usize;
        let chars: Vec<char> = s.chars().collect();
        let mut i = 0;
        let mut ok = true;
        while i < chars.len() {
            let c = chars[i];
            if c == '{' {
                if i + 1 < chars.len() && chars[i + 1] == '{' {
                    cur.push('{');
                    i += 2;
                    continue;
                }
                let mut j = i + 1;
                let mut name = String::new();
                while j < chars.len() && chars[j] != '}' {
                    name.push(chars[j]);
                    j += 1;
                }
                if j >= chars.len() {
                    ok = false;
                    break;
                }
                if !cur.is_empty() {
                    pieces.push(format!(".lit({:?})", cur));
                    cur.clear();
                }
                if name.is_empty() {
                    if argi >= rest.len() {
                        ok = false;
                        break;
                    }
                    let r = range_of(rest[argi]);
                    pieces.push(format!(".arg(&{})", self.fc.text(r)));
                    argi += 1;
                } else if name.chars().all(|c| c.is_alphanumeric() || c == '_') {
                    pieces.push(format!(".arg(&{})", name));
                } else {
                    ok = false;
                    break;
                }
                i = j + 1;
            } else if c == '}' {
                if i + 1 < chars.len() && chars[i + 1] == '}' {
                    cur.push('}');
                    i += 2;
                    continue;
                }
                ok = false;
                break;
            } else {
                cur.push(c);
                i += 1;
            }
        }
        if !cur.is_empty() {
            pieces.push(format!(".lit({:?})", cur));
        }
        if !ok || argi != rest.len() {
            // a placeholder R4 does not model ({:x}, {:04}, {:?} ...): the result is an
            // UNCONSTRAINED string (nothing can be proved about it); explicit args are evaluated
            self.fc.degraded.push(format!("unit {}: format!({:?}) is treated as an unconstrained string", self.outer_name, s));
            self.taint(format!("format!({:?}) is treated as an unconstrained string", s));
            if rest.is_empty() {
                self.fc.edit(whole.0, whole.1, "opaque_msg!()", "R4.opaque_value");
            } else {
                let first = range_of(rest[0]);
                let last = range_of(rest[rest.len() - 1]);
                self.fc.edit(whole.0, first.0, "opaque_msg!(", "R4.opaque_value");
                self.fc.edit(last.1, whole.1, ")", "R4.opaque_value.close");
                for e in rest {
                    self.visit_expr(e);
                }
            }
            return;
        }
        // the first piece starts the builder (so that no `empty + x` term arises)
        if let Some(first) = pieces.first_mut() {
            *first = first.replacen(".lit(", ".lit0(", 1).replacen(".arg(", ".arg0(", 1);
        }
        let txt = format!("crate::shims::fmt::Fmt::new(){}.done()", pieces.concat());
        self.fc.edit(whole.0, whole.1, txt, "R4.visible");
    }

    fn weave_closure(&mut self, c: &ExprClosure) {
        self.closure_no += 1;
        // anchor: "<callee name>#<k>" = the k-th closure literal passed to a call of that name
        // in this unit (source order); a closure that is not a call argument is "let#k"
        let ctx = self.closure_ctx.last().cloned().unwrap_or_else(|| "let".to_string());
        let cnt = self.closure_counts.entry(ctx.clone()).or_insert(0);
        *cnt += 1;
        let key = format!("{}#{}", ctx, *cnt);
        let mut spec = None;
        if let Some(u) = self.unit.as_ref() {
            for (k, v) in &u.closures_by_text {
                if *k == key {
                    spec = Some(v.clone());
                }
            }
        }
        if let Some(spec) = spec {
            self.used_text_closures.insert(key.clone());
            let types: Vec<String> = spec.get("types").and_then(|x| x.as_array()).map(|a| a.iter().map(|x| x.as_str().unwrap_or("").to_string()).collect()).unwrap_or_default();
            if types.len() != c.inputs.len() {
                self.fc.degraded.push(format!("unit {}: closure {key} has {} parameters, the contract expects {}", self.outer_name, c.inputs.len(), types.len()));
                self.taint(format!("closure {key}: contract dropped (parameter count)"));
                return;
            }
            // parameter names come from the source; `$k` in the contract is the k-th parameter
            let mut names: Vec<String> = vec![];
            let mut params: Vec<String> = vec![];
            for (i, p) in c.inputs.iter().enumerate() {
                let pat = match p {
                    Pat::Type(pt) => &*pt.pat,
                    other => other,
                };
                let name = match pat {
                    Pat::Ident(pi) => pi.ident.to_string(),
                    Pat::Wild(_) => format!("_w{i}"),
                    _ => {
                        self.fc.degraded.push(format!("unit {}: closure {key}: parameter {} is a pattern, not a name", self.outer_name, i + 1));
                        self.taint(format!("closure {key}: contract dropped (pattern parameter)"));
                        return;
                    }
                };
                let mutab = match pat { Pat::Ident(pi) if pi.mutability.is_some() => "mut ", _ => "" };
                params.push(format!("{mutab}{name}: {}", types[i]));
                names.push(name);
            }
            let ret = jstr(&spec, "ret");
            let mut contract = jstr(&spec, "contract");
            for (i, n) in names.iter().enumerate().rev() {
                contract = contract.replace(&format!("${}", i + 1), n);
            }
            let (a, _) = br(c.or1_token.span());
            let mut end = br(c.or2_token.span()).1;
            if let ReturnType::Type(_, t) = &c.output {
                end = range_of(&**t).1;
            }
            let mut txt = format!("|{}|", params.join(", "));
            if !ret.is_empty() {
                txt.push_str(&format!(" -> ({ret})"));
            }
            if !contract.is_empty() {
                txt.push_str("\n");
                txt.push_str(&contract);
                txt.push_str("\n");
            }
            self.fc.edit(a, end, txt, "R7.closure");
            self.closure_rewritten = true;
            // body must be a block once a return type is written
            if !matches!(&*c.body, Expr::Block(_)) {
                let r = range_of(&*c.body);
                self.fc.edit_ord(r.0, r.0, "{ ", "R7.closure.brace", -9);
                self.fc.edit_ord(r.1, r.1, " }", "R7.closure.brace", 9);
            }
        }
    }

    /// T1: the proof context of the current unit lost information here
    fn taint(&mut self, why: String) {
        let id = self.unit.as_ref().map(|u| u.id.clone()).unwrap_or_else(|| self.outer_name.clone());
        self.fc.taints.push(format!("{id}|{why}"));
    }

    fn note_call(&mut self, name: &str) {
        let c = self.call_counts.entry(name.to_string()).or_insert(0);
        *c += 1;
        let key = format!("{}#{}", name, *c);
        self.calls_seen.push(key);
    }

    /// R23: a bare datatype constructor (`Ok`, `Err`, `Some`) passed as a function value becomes
    /// the closure `|c| Ok(c)` (Verus does not support constructors as function values); it
    /// counts as the next closure of its callee for contract anchoring
    fn ctor_as_closure(&mut self, arg: &Expr, callee: &str) -> bool {
        if let Expr::Path(ep) = arg {
            if let Some(id) = ep.path.get_ident() {
                let n = id.to_string();
                if n == "Ok" || n == "Err" || n == "Some" {
                    self.closure_no += 1;
                    let cnt = self.closure_counts.entry(callee.to_string()).or_insert(0);
                    *cnt += 1;
                    let key = format!("{}#{}", callee, *cnt);
                    let mut spec = None;
                    if let Some(u) = self.unit.as_ref() {
                        for (k, v) in &u.closures_by_text {
                            if *k == key {
                                spec = Some(v.clone());
                            }
                        }
                    }
                    let r = range_of(arg);
                    let txt = match spec {
                        Some(spec) => {
                            self.used_text_closures.insert(key.clone());
                            let types: Vec<String> = spec.get("types").and_then(|x| x.as_array()).map(|a| a.iter().map(|x| x.as_str().unwrap_or("").to_string()).collect()).unwrap_or_default();
                            let ty = types.first().cloned().unwrap_or_else(|| "_".to_string());
                            let ret = jstr(&spec, "ret");
                            let contract = jstr(&spec, "contract").replace("$1", "__c");
                            format!("|__c: {ty}| -> ({ret})\n{contract}\n{{ {n}(__c) }}")
                        }
                        None => format!("|__c| {n}(__c)"),
                    };
                    self.fc.edit(r.0, r.1, txt, "R23.ctor_closure");
                    return true;
                }
            }
        }
        false
    }

    fn visit_call_parts(&mut self, e: &ExprCall) {
        self.visit_expr(&e.func);
        let name = match &*e.func {
            Expr::Path(ep) => ep.path.segments.last().map(|s| s.ident.to_string()).unwrap_or_default(),
            _ => String::new(),
        };
        if !name.is_empty() {
            self.note_call(&name);
        }
        for a in e.args.iter() {
            let is_closure = matches!(a, Expr::Closure(_));
            if is_closure {
                self.closure_ctx.push(name.clone());
            }
            self.visit_expr(a);
            if is_closure {
                self.closure_ctx.pop();
            }
        }
    }

    fn weave_loop(&mut self, body: &Block) {
        self.loop_no += 1;
        let n = self.loop_no;
        if let Some(t) = self.unit.as_ref().and_then(|u| u.loops.get(&n)).cloned() {
            self.used_loops.insert(n);
            let (a, _) = br(body.brace_token.span.open());
            self.fc.edit_ord(a, a, format!("\n{}\n", t), "W.loop", 0);
        }
    }
}

impl<'a, 'b, 'ast> Visit<'ast> for BodyV<'a, 'b> {
    fn visit_attribute(&mut self, _a: &'ast Attribute) {
        // attributes handled by strip_attrs at the item level
    }

    fn visit_path(&mut self, p: &'ast Path) {
        self.rewrite_root_path(p, false);
        if p.leading_colon.is_none() && p.segments.len() == 1 {
            if let Some(nn) = self.fc.code_renames.get(&p.segments[0].ident.to_string()).cloned() {
                let r = br(p.segments[0].ident.span());
                self.fc.edit(r.0, r.1, nn, "N1.rename");
            }
        }
        // generic AsRef params used as types: handled in visit_type_path
        visit::visit_path(self, p);
    }

    fn visit_type(&mut self, t: &'ast Type) {
        if let Type::Path(tp) = t {
            if tp.qself.is_none() {
                if let Some(id) = tp.path.get_ident() {
                    if let Some(rep) = self.asref_params.get(&id.to_string()).cloned() {
                        let r = range_of(t);
                        self.fc.edit(r.0, r.1, rep, "R12.type");
                        return;
                    }
                }
            }
        }
        if let Type::ImplTrait(it) = t {
            // R12 in argument position: `impl AsRef<Path>` -> `&Path`
            for b in it.bounds.iter() {
                if let Some(rep) = type_is_asref(b, self.fc.cfg) {
                    let r = range_of(t);
                    self.fc.edit(r.0, r.1, rep, "R12.impl_asref");
                    return;
                }
            }
            // R11: impl Iterator<Item = X>  ->  crate::shims::iter::Iter<X>
            for b in it.bounds.iter() {
                if let TypeParamBound::Trait(tb) = b {
                    let last = tb.path.segments.last().unwrap();
                    if last.ident == "Iterator" {
                        if let PathArguments::AngleBracketed(ab) = &last.arguments {
                            for ga in ab.args.iter() {
                                if let GenericArgument::AssocType(at) = ga {
                                    if at.ident == "Item" {
                                        let r = range_of(t);
                                        let ir = range_of(&at.ty);
                                        self.fc.edit(r.0, ir.0, "crate::shims::iter::Iter<", "R11.iter");
                                        self.fc.edit(ir.1, r.1, ">", "R11.iter.close");
                                        self.visit_type(&at.ty);
                                        return;
                                    }
                                }
                            }
                        }
                    }
                }
            }
        }
        visit::visit_type(self, t);
    }

    fn visit_expr_reference(&mut self, e: &'ast ExprReference) {
        // R15: `&X[a..b]` on a string named in the unit's `strslice` list
        if e.mutability.is_none() {
            if let Expr::Index(ix) = &*e.expr {
                if let (Expr::Path(bp), Expr::Range(rg)) = (&*ix.expr, &*ix.index) {
                    if let Some(id) = bp.path.get_ident() {
                        let listed = self.unit.as_ref().map(|u| u.str_slices.contains(&id.to_string())).unwrap_or(false);
                        if listed && matches!(rg.limits, RangeLimits::HalfOpen(_)) {
                            let whole = range_of(e);
                            let dots = match &rg.limits { RangeLimits::HalfOpen(d) => range_of(d), RangeLimits::Closed(d) => range_of(d) };
                            let f = match (&rg.start, &rg.end) {
                                (Some(_), Some(_)) => "slice",
                                (Some(_), None) => "slice_from",
                                (None, Some(_)) => "slice_to",
                                (None, None) => "slice_full",
                            };
                            let head = format!("crate::shims::strs::{}(&{}", f, id);
                            match (&rg.start, &rg.end) {
                                (Some(a), Some(b)) => {
                                    let ar = range_of(&**a);
                                    let brr = range_of(&**b);
                                    self.fc.edit(whole.0, ar.0, format!("{head}, "), "R15.strslice");
                                    self.fc.edit(dots.0, dots.1, ", ", "R15.strslice");
                                    self.fc.edit(brr.1, whole.1, ")", "R15.strslice");
                                    self.visit_expr(a);
                                    self.visit_expr(b);
                                }
                                (Some(a), None) => {
                                    let ar = range_of(&**a);
                                    self.fc.edit(whole.0, ar.0, format!("{head}, "), "R15.strslice");
                                    self.fc.edit(dots.0, whole.1, ")", "R15.strslice");
                                    self.visit_expr(a);
                                }
                                (None, Some(b)) => {
                                    let brr = range_of(&**b);
                                    self.fc.edit(whole.0, brr.0, format!("{head}, "), "R15.strslice");
                                    self.fc.edit(brr.1, whole.1, ")", "R15.strslice");
                                    self.visit_expr(b);
                                }
                                (None, None) => {
                                    self.fc.edit(whole.0, whole.1, format!("{head})"), "R15.strslice");
                                }
                            }
                            return;
                        }
                    }
                }
            }
        }
        visit::visit_expr_reference(self, e);
    }

    fn visit_expr_try(&mut self, e: &'ast ExprTry) {
        if self.closure_depth == 0 {
            self.try_operand = match &*e.expr {
                Expr::Call(c) => Some(range_of(c)),
                Expr::MethodCall(c) => Some(range_of(c)),
                Expr::Await(a) => match &*a.base { Expr::Call(c) => Some(range_of(c)), _ => None },
                _ => None,
            };
        }
        // R17: `E?`  ->  (match E { Ok(__v) => __v, Err(__e) => return Err(__e.into()) })
        // (the desugaring of `?` on a Result; Verus keeps the converted error value only
        // when the conversion is an explicit call)
        if self.unit.as_ref().map(|u| u.try_poll).unwrap_or(false) && self.closure_depth == 0 {
            // R17b: in a fn returning Poll<Result<T, E>>, `E?` on a Result is
            // `match E { Ok(v) => v, Err(e) => return Poll::Ready(Err(e.into())) }`
            let inner = range_of(&*e.expr);
            let (qa, qb) = br(e.question_token.span());
            self.fc.edit_ord(inner.0, inner.0, "(match ", "R17b.try_poll", -7);
            self.fc.edit(qa, qb, " { Ok(__v) => __v, Err(__e) => return Poll::Ready(Err(__e.into())) })", "R17b.try_poll");
        } else if self.unit.as_ref().map(|u| u.try_conv).unwrap_or(false) {
            let inner = range_of(&*e.expr);
            let (qa, qb) = br(e.question_token.span());
            self.fc.edit_ord(inner.0, inner.0, "(match ", "R17.try", -7);
            self.fc.edit(qa, qb, " { Ok(__v) => __v, Err(__e) => return Err(__e.into()) })", "R17.try");
        }
        visit::visit_expr_try(self, e);
    }

    fn visit_expr_await(&mut self, e: &'ast ExprAwait) {
        let (a, _) = br(e.dot_token.span());
        let (_, b) = br(e.await_token.span());
        // also swallow whitespace/newline before `.await` when it sits on its own line
        let mut start = a;
        let bytes = self.fc.src.as_bytes();
        let mut k = a;
        while k > 0 && (bytes[k - 1] == b' ' || bytes[k - 1] == b'\t') {
            k -= 1;
        }
        if k > 0 && bytes[k - 1] == b'\n' {
            start = k - 1;
        }
        self.fc.edit(start, b, "", "R2.await");
        if let Expr::Call(c) = &*e.base {
            self.awaited_call = true;
            self.visit_expr_call(c);
            self.awaited_call = false;
            return;
        }
        visit::visit_expr_await(self, e);
    }

    fn visit_expr_call(&mut self, e: &'ast ExprCall) {
        let awaited = std::mem::replace(&mut self.awaited_call, false);
        // I1: write an auto-included helper out at its call site
        if let Expr::Path(ep) = &*e.func {
            let seglen = ep.path.segments.len();
            if (seglen == 1 || seglen == 2) && ep.qself.is_none() && !self.fc.no_inline {
                let n = ep.path.segments[seglen - 1].ident.to_string();
                let mut nested_tail = false;
                let found = if seglen == 1 {
                    let nk = format!("{}/{}", self.outer_name, n);
                    nested_tail = matches!(self.fc.tail_calls.get(&nk), Some(r) if *r == range_of(e));
                    self.fc.inline_map.get(&nk).cloned().or_else(|| self.fc.inline_map.get(&n).cloned())
                } else {
                    let first = ep.path.segments[0].ident.to_string();
                    self.fc.inline_map.get(&format!("::{n}")).cloned().filter(|i| first == "Self" || i.owner.as_deref() == Some(first.as_str()))
                };
                if let Some(info) = found {
                    let here = range_of(e);
                    let in_tail = self.closure_depth == 0 && self.tail_call.contains(&here) && info.ret_norm == self.ret_norm;
                    let in_try = self.closure_depth == 0 && self.try_operand == Some(here) && err_key(&info.ret_norm).is_some() && err_key(&info.ret_norm) == err_key(&self.ret_norm);
                    // the whole body of a closure: `return` / `?` in the helper leave the helper, written
                    // out they leave the closure - the same thing (the closure's result type is the helper's)
                    let in_closure_tail = self.closure_tail == Some(here) && !info.is_async;
                    let mut leave_ok = nested_tail || match info.leaves { 0 => true, 1 => in_try || in_tail || in_closure_tail, _ => in_tail || in_closure_tail };
                    let mut info = info;
                    if !leave_ok && !info.is_async {
                        if let Some(flat) = info.body_flat.clone() {
                            info.body = flat;
                            leave_ok = true;
                        }
                    }
                    let async_ok = nested_tail || !info.is_async || awaited;
                    // a read-only helper inside a unit with the mutable ghost world sees it reborrowed
                    let ro_in_mut = info.world == "ro" && self.world == "mut";
                    if leave_ok && async_ok && (info.world == "none" || info.world == self.world || ro_in_mut) && info.params.len() == e.args.len() && !self.nested_units.contains_key(&format!("{}/{}", self.outer_name, n)) {
                        let whole = range_of(e);
                        let mut lets = String::new();
                        if ro_in_mut {
                            lets.push_str("let tracked w = &*w; ");
                        }
                        for (k, (pn, ty, m)) in info.params.iter().enumerate() {
                            lets.push_str(&format!("let {}{}: {} = __i{}; ", if *m { "mut " } else { "" }, pn, ty, k));
                        }
                        let inner = match &info.ret {
                            Some(t) => format!("{{ {lets}let __r: {t} = {}; __r }}", info.body),
                            None => format!("{{ {lets}{} }}", info.body),
                        };
                        if e.args.is_empty() {
                            self.fc.edit(whole.0, whole.1, format!("({inner})"), "I1.inline_helper");
                        } else {
                            let ranges: Vec<(usize, usize)> = e.args.iter().map(|a| range_of(a)).collect();
                            self.fc.edit(whole.0, ranges[0].0, "({ let __i0 = ", "I1.inline_helper");
                            for k in 1..ranges.len() {
                                self.fc.edit(ranges[k - 1].1, ranges[k].0, format!("; let __i{k} = "), "I1.inline_helper");
                            }
                            self.fc.edit(ranges[ranges.len() - 1].1, whole.1, format!("; {inner} }})"), "I1.inline_helper");
                        }
                        self.note_call(&n);
                        for t in info.taints.iter() {
                            self.taint(format!("(in `{n}`, written out here) {t}"));
                        }
                        self.taint(format!("@inlined {}", info.hid));
                        for a in e.args.iter() {
                            self.visit_expr(a);
                        }
                        return;
                    }
                }
            }
        }
        // R8: `spawn_blocking(|| BODY)` -> `spawned({ BODY })`, `spawn_blocking(|| BODY).await` ->
        // `awaited({ BODY })`: the blocking task's body is evaluated where it is spawned and the
        // handle holds its value (sequential model of the task; see shims/async_rt.rs)
        if let Expr::Path(ep) = &*e.func {
            if ep.path.segments.last().map(|s| s.ident == "spawn_blocking").unwrap_or(false) && e.args.len() == 1 {
                if let Expr::Closure(c) = &e.args[0] {
                    if c.inputs.is_empty() && c.asyncness.is_none() {
                        let whole = range_of(e);
                        let body = range_of(&*c.body);
                        let f = if awaited { "awaited" } else { "spawned" };
                        // a `return` inside the task body leaves the CLOSURE, which an inlined block
                        // cannot express: the task is then treated as unspecified (its result and
                        // its effect on the file system are unconstrained)
                        if leaves_closure(&c.body) {
                            let arg = if self.world == "mut" { "Tracked(w)" } else { "crate::shims::ro_violation_world()" };
                            self.fc.edit(whole.0, whole.1, format!("crate::shims::async_std::task::{f}({{ crate::shims::havoc_world({arg}); crate::shims::arbitrary() }})"), "R8.spawn_blocking.opaque");
                            self.fc.degraded.push(format!("unit {}: the body of a spawn_blocking task contains `return` or `?`: task treated as unspecified", self.outer_name));
                            self.taint("a spawn_blocking task body with `return`/`?` is treated as unspecified".to_string());
                            self.note_call("spawn_blocking");
                            return;
                        }
                        self.fc.edit(whole.0, body.0, format!("crate::shims::async_std::task::{f}("), "R8.spawn_blocking");
                        self.fc.edit(body.1, whole.1, ")", "R8.spawn_blocking");
                        self.note_call("spawn_blocking");
                        self.visit_expr(&c.body);
                        return;
                    }
                }
            }
        }
        // R1b: redirect listed `Type::function` calls to their shim
        if let Expr::Path(ep) = &*e.func {
            let n = ep.path.segments.len();
            if n >= 2 && ep.qself.is_none() {
                let k = format!("{}::{}", ep.path.segments[n - 2].ident, ep.path.segments[n - 1].ident);
                if let Some(rep) = self.fc.cfg.path_map.get(&k).cloned() {
                    let r = range_of(&ep.path);
                    self.fc.edit(r.0, r.1, rep, "R1b.path_map");
                    for a in e.args.iter() {
                        self.visit_expr(a);
                    }
                    return;
                }
            }
        }
        // R21: `Pin::new(E)` -> `E`
        if let Expr::Path(ep) = &*e.func {
            let segs: Vec<String> = ep.path.segments.iter().map(|s| s.ident.to_string()).collect();
            if segs.len() >= 2 && segs[segs.len() - 2] == "Pin" && segs[segs.len() - 1] == "new" && e.args.len() == 1 {
                let whole = range_of(e);
                let a = range_of(&e.args[0]);
                self.fc.edit(whole.0, a.0, "(", "R21.pin_new");
                self.fc.edit(a.1, whole.1, ")", "R21.pin_new");
                self.visit_expr(&e.args[0]);
                return;
            }
        }
        if let Expr::Path(ep) = &*e.func {
            let (k2, k1) = path_key2(&ep.path);
            let mode = k2
                .as_ref()
                .and_then(|k| self.fc.cfg.eff_path.get(k))
                .or_else(|| if k2.is_none() { self.fc.extra_eff.get(&k1).or_else(|| self.fc.cfg.eff_path.get(&k1)) } else { self.fc.cfg.eff_path.get(&format!("*::{k1}")).or_else(|| self.fc.cfg.eff_path.get(&k1)).or_else(|| k2.as_ref().and_then(|k| self.fc.extra_eff.get(k))) })
                .cloned();
            // nested fn call rename (hoisted inner functions)
            if k2.is_none() {
                let key = format!("{}/{}", self.outer_name, k1);
                if let Some(nu) = self.nested_units.get(&key) {
                    if let Some(newname) = &nu.rename {
                        let r = br(ep.path.segments[0].ident.span());
                        self.fc.edit(r.0, r.1, newname.clone(), "R14.nested.call");
                    }
                    if nu.world != "none" {
                        let m = nu.world.clone();
                        self.add_world_arg(e.paren_token.span.close(), !e.args.is_empty(), e.args.trailing_punct(), &m, &k1);
                    }
                    self.visit_call_parts(e);
                    return;
                }
                if let Some(m) = self.fc.auto_nested.get(&key).cloned() {
                    self.taint(format!("calls nested `{k1}`, which has no contract"));
                    if m != "none" {
                        self.add_world_arg(e.paren_token.span.close(), !e.args.is_empty(), e.args.trailing_punct(), &m, &k1);
                    }
                    self.visit_call_parts(e);
                    return;
                }
            }
            {
                let hit = match &k2 {
                    None => (self.fc.extra_eff.contains_key(&k1) || self.fc.cfg.auto_keys.contains(&k1)) && !self.fc.rebound_names.contains(&k1),
                    Some(k) => self.fc.extra_eff.contains_key(k) || self.fc.cfg.auto_keys.contains(k),
                };
                if hit {
                    self.taint(format!("calls `{}`, which has no contract", k2.clone().unwrap_or(k1.clone())));
                }
            }
            if let Some(m) = mode {
                if m != "none" {
                    let what = k2.clone().unwrap_or(k1.clone());
                    self.add_world_arg(e.paren_token.span.close(), !e.args.is_empty(), e.args.trailing_punct(), &m, &what);
                }
            }
        }
        self.visit_call_parts(e);
    }

    fn visit_expr_method_call(&mut self, e: &'ast ExprMethodCall) {
        let name = e.method.to_string();
        // I1m: a method without a contract (of a type of this file) is written out at its call
        // site when the receiver is known to be of that type: `self` inside an impl of the type, or
        // `X.field` with the field declared of the type.
        //   `R.m(a)` -> `({ let __s = &R; let __i0 = a; { let p: T = __i0; BODY[self := __s] } })`
        if !self.fc.no_inline && e.turbofish.is_none() {
            if let Some(info) = self.fc.inline_map.get(&format!(".{name}")).cloned() {
                let owner = info.owner.clone().unwrap_or_default();
                let owner_base = owner.split('<').next().unwrap_or("").to_string();
                let recv_ok = match &*e.receiver {
                    Expr::Path(p) if p.path.is_ident("self") => {
                        let k = self.outer_name.split('/').next().unwrap_or("");
                        let k = k.rsplit(" for ").next().unwrap_or(k);
                        self.closure_depth == 0 && k.split('<').next().unwrap_or("") == owner_base
                    }
                    Expr::Field(fe) => match &fe.member {
                        Member::Named(id) => self.fc.field_types.get(&id.to_string()).map(|t| t.split('<').next().unwrap_or("").trim() == owner_base).unwrap_or(false),
                        _ => false,
                    },
                    _ => false,
                };
                let here = range_of(e);
                let in_try = self.closure_depth == 0 && self.try_operand == Some(here) && err_key(&info.ret_norm).is_some() && err_key(&info.ret_norm) == err_key(&self.ret_norm);
                let mut leave_ok = info.leaves == 0 || (info.leaves == 1 && in_try);
                let mut info = info;
                if !leave_ok {
                    if let Some(flat) = info.body_flat.clone() {
                        info.body = flat;
                        leave_ok = true;
                    }
                }
                let ro_in_mut = info.world == "ro" && self.world == "mut";
                if info.recv != 0 && recv_ok && leave_ok && !info.is_async && !owner_base.is_empty() && info.params.len() == e.args.len()
                    && (info.world == "none" || info.world == self.world || ro_in_mut) {
                    let mut lets = String::new();
                    if ro_in_mut {
                        lets.push_str("let tracked w = &*w; ");
                    }
                    for (k, (pn, ty, m)) in info.params.iter().enumerate() {
                        lets.push_str(&format!("let {}{}: {} = __i{}; ", if *m { "mut " } else { "" }, pn, ty, k));
                    }
                    let inner = match &info.ret {
                        Some(t) => format!("{{ {lets}let __r: {t} = {}; __r }}", info.body),
                        None => format!("{{ {lets}{} }}", info.body),
                    };
                    let recv = range_of(&*e.receiver);
                    let pre = match info.recv { 1 => "({ let __self = &(", 2 => "({ let __self = &mut (", _ => "({ let __self = (" };
                    self.fc.edit_ord(here.0, recv.0, pre, "I1m.inline_method", -41);
                    if e.args.is_empty() {
                        self.fc.edit(recv.1, here.1, format!("); {inner} }})"), "I1m.inline_method");
                    } else {
                        let ranges: Vec<(usize, usize)> = e.args.iter().map(|a| range_of(a)).collect();
                        self.fc.edit(recv.1, ranges[0].0, "); let __i0 = ", "I1m.inline_method");
                        for k in 1..ranges.len() {
                            self.fc.edit(ranges[k - 1].1, ranges[k].0, format!("; let __i{k} = "), "I1m.inline_method");
                        }
                        self.fc.edit(ranges[ranges.len() - 1].1, here.1, format!("; {inner} }})"), "I1m.inline_method");
                    }
                    self.note_call(&name);
                    for t in info.taints.iter() {
                        self.taint(format!("(in `{name}`, written out here) {t}"));
                    }
                    self.taint(format!("@inlined {}", info.hid));
                    self.visit_expr(&e.receiver);
                    for a in e.args.iter() {
                        self.visit_expr(a);
                    }
                    return;
                }
            }
        }
        // R12b: `p.as_ref()` on a parameter whose `AsRef<T>` generic was instantiated at `&T` (R12) is
        // the identity: written as `p` (left as a call, its target type would have to be inferred
        // from the context, which a plain `&T` receiver leaves ambiguous)
        if name == "as_ref" && e.args.is_empty() && e.turbofish.is_none() {
            if let Expr::Path(p) = &*e.receiver {
                if p.path.get_ident().map(|i| self.asref_idents.contains(&i.to_string())).unwrap_or(false) && self.closure_depth == 0 {
                    let whole = range_of(e);
                    let recv = range_of(&*e.receiver);
                    self.fc.edit(recv.1, whole.1, "", "R12b.as_ref");
                    return;
                }
            }
        }
        // R19: `X[a..b].copy_from_slice(src)` -> crate::shims::slices::copy_into(&mut *X, a, b, src [, world])
        if name == "copy_from_slice" && e.args.len() == 1 {
            if let Expr::Index(ix) = &*e.receiver {
                if let Expr::Range(rg) = &*ix.index {
                    if matches!(rg.limits, RangeLimits::HalfOpen(_)) && rg.end.is_some() {
                        let whole = range_of(e);
                        let base = range_of(&*ix.expr);
                        let endr = range_of(&**rg.end.as_ref().unwrap());
                        let arg = range_of(&e.args[0]);
                        let warg = match self.world.as_str() {
                            "mut" => ", Tracked(w)",
                            _ => "",
                        };
                        if self.world != "mut" {
                            self.fc.errors.push(format!("unit {}: R19 copy into a mapping needs a mutable ghost world", self.outer_name));
                        }
                        self.fc.edit(whole.0, base.0, "crate::shims::slices::copy_into(&mut *", "R19.copy_into");
                        match &rg.start {
                            Some(st) => {
                                let sr = range_of(&**st);
                                self.fc.edit(base.1, sr.0, ", ", "R19.copy_into");
                                self.fc.edit(sr.1, endr.0, ", ", "R19.copy_into");
                                self.visit_expr(st);
                            }
                            None => {
                                self.fc.edit(base.1, endr.0, ", 0, ", "R19.copy_into");
                            }
                        }
                        self.fc.edit(endr.1, arg.0, ", ", "R19.copy_into");
                        self.fc.edit(arg.1, whole.1, format!("{warg})"), "R19.copy_into");
                        self.visit_expr(&ix.expr);
                        self.visit_expr(rg.end.as_ref().unwrap());
                        self.visit_expr(&e.args[0]);
                        return;
                    }
                }
            }
        }
        // R25: `X.and_then(|p| B)` / `X.or_else(|p| B)` / `X.unwrap_or_else(|p| B)` whose closure
        // body performs a file-system mutation -> the combinator's definition written out as a
        // `match` (Verus has no closures that capture the mutable ghost world)
        if (name == "and_then" || name == "or_else" || name == "unwrap_or_else" || name == "map_err" || name == "ok_or_else" || name == "then") && e.args.len() == 1 && e.turbofish.is_none() {
            if let Expr::Closure(c) = &e.args[0] {
                let no_modes: HashMap<String, String> = HashMap::new();
                let mut sc = EffScan { cfg: self.fc.cfg, auto_modes: &no_modes, mode: 0 };
                sc.visit_expr(&c.body);
                let ext_mut = {
                    // helper functions of this file with a mutable world
                    let mut is = HashSet::new();
                    IdentScan { out: &mut is }.visit_expr(&c.body);
                    is.iter().any(|n| self.fc.extra_eff.get(n).map(|m| m.starts_with("mut")).unwrap_or(false))
                };
                // `b.then(|| E)` is always written out as `if b { Some(E) } else { None }` (there is no
                // specification of `bool::then` over an arbitrary closure)
                let plain_then = name == "then" && c.inputs.is_empty();
                // ... and a closure the contracts say nothing about (no `<callee>#k` clause): Verus knows
                // nothing about what such a closure returns, the written-out `match` says it all
                let effectful = (sc.mode == 2 || ext_mut) && self.world == "mut";
                let next_key = format!("{}#{}", name, self.closure_counts.get(&name).cloned().unwrap_or(0) + 1);
                let has_contract = self.unit.as_ref().map(|u| u.closures_by_text.iter().any(|(k, _)| *k == next_key)).unwrap_or(false);
                let uncontracted = !effectful && !has_contract && name != "then" && c.capture.is_none();
                if uncontracted && c.asyncness.is_none() && c.inputs.len() <= 1 && !leaves_closure(&c.body) {
                    // keep the numbering of the later closures of this callee as it was
                    self.closure_no += 1;
                    *self.closure_counts.entry(name.clone()).or_insert(0) += 1;
                }
                if (effectful || plain_then || uncontracted) && c.asyncness.is_none() && c.inputs.len() <= 1 && !leaves_closure(&c.body) {
                    let whole = range_of(e);
                    let recv = range_of(&*e.receiver);
                    let body = range_of(&*c.body);
                    let pat = match c.inputs.first() {
                        Some(Pat::Type(pt)) => self.fc.text(range_of(&*pt.pat)).to_string(),
                        Some(p) => self.fc.text(range_of(p)).to_string(),
                        None => String::new(),
                    };
                    let (pre, mid, post) = match (name.as_str(), c.inputs.len()) {
                        ("and_then", 1) => ("(match crate::shims::ctl::Splittable::split(".to_string(),
                                            format!(") {{ crate::shims::ctl::Split::Go({pat}) => "),
                                            ", crate::shims::ctl::Split::Stop(__b) => crate::shims::ctl::FromStop::from_stop(__b) })".to_string()),
                        ("or_else", 1) => ("(match ".to_string(), format!(" {{ Ok(__v) => Ok(__v), Err({pat}) => "), " })".to_string()),
                        ("or_else", 0) => ("(match ".to_string(), " { Some(__v) => Some(__v), None => ".to_string(), " })".to_string()),
                        ("unwrap_or_else", 1) => ("(match ".to_string(), format!(" {{ Ok(__v) => __v, Err({pat}) => "), " })".to_string()),
                        ("unwrap_or_else", 0) => ("(match ".to_string(), " { Some(__v) => __v, None => ".to_string(), " })".to_string()),
                        ("map_err", 1) => ("(match ".to_string(), format!(" {{ Ok(__v) => Ok(__v), Err({pat}) => Err("), ") })".to_string()),
                        ("ok_or_else", 0) => ("(match ".to_string(), " { Some(__v) => Ok(__v), None => Err(".to_string(), ") })".to_string()),
                        ("then", 0) => ("(if ".to_string(), " { Some(".to_string(), ") } else { None })".to_string()),
                        _ => (String::new(), String::new(), String::new()),
                    };
                    if !pre.is_empty() {
                        self.fc.edit_ord(whole.0, recv.0, pre, "R25.combinator", -40);
                        self.fc.edit(recv.1, body.0, mid, "R25.combinator");
                        self.fc.edit(body.1, whole.1, post, "R25.combinator");
                        self.note_call(&name);
                        self.visit_expr(&e.receiver);
                        self.visit_expr(&c.body);
                        return;
                    }
                }
            }
        }
        // R10 iterator entry points
        if let Some(newname) = self.fc.cfg.iter_renames.get(&name).cloned() {
            let r = br(e.method.span());
            self.fc.edit(r.0, r.1, newname, "R10.iter");
        }
        let key = format!(".{name}");
        if (self.fc.extra_eff.contains_key(&key) && !self.fc.cfg.eff_method.contains_key(&key)) || (self.fc.cfg.auto_keys.contains(&key) && self.fc.cfg.method_argc.get(&name).map(|a| a.contains(&e.args.len())).unwrap_or(false)) {
            self.taint(format!("calls method `{name}`, which has no contract"));
        }
        if let Some(m) = self.fc.cfg.eff_method.get(&key).cloned().or_else(|| self.fc.extra_eff.get(&key).cloned()) {
            let (mode, qual) = match m.split_once('/') {
                Some((a, b)) => (a.to_string(), b.to_string()),
                None => (m.clone(), String::new()),
            };
            let mut apply = mode != "none";
            // a receiver `X.field` whose declared type is a plain in-memory container never
            // touches the file system, whatever the method is called
            if let Expr::Field(fe) = &*e.receiver {
                if let Member::Named(id) = &fe.member {
                    if let Some(t) = self.fc.field_types.get(&id.to_string()) {
                        if t.starts_with("Vec<") || t.starts_with("Option<Vec<") || t == "String" || t == "usize" {
                            apply = false;
                        }
                    }
                }
            }
            if self.fc.cfg.eff_method_derived.contains(&key) && !self.fc.cfg.method_argc.get(&name).map(|a| a.contains(&e.args.len())).unwrap_or(false) {
                apply = false;
            }
            if qual == "nonlit" {
                if let Some(Expr::Lit(_)) = e.args.first() {
                    apply = false;
                }
            }
            if let Some(n) = qual.strip_prefix("argc") {
                let n: usize = n.parse().unwrap_or(0);
                if e.args.len() != n {
                    apply = false;
                }
            }
            if apply {
                self.add_world_arg(e.paren_token.span.close(), !e.args.is_empty(), e.args.trailing_punct(), &mode, &key);
            }
        }
        let opaque = self.fc.cfg.opaque_fmt_in.contains(&name);
        self.note_call(&name);
        self.visit_expr(&e.receiver);
        if let Some(t) = &e.turbofish {
            self.visit_angle_bracketed_generic_arguments(t);
        }
        if opaque {
            self.in_opaque_ctx += 1;
        }
        for a in e.args.iter() {
            if self.ctor_as_closure(a, &name) {
                continue;
            }
            let is_closure = matches!(a, Expr::Closure(_));
            if is_closure {
                self.closure_ctx.push(name.clone());
            }
            self.visit_expr(a);
            if is_closure {
                self.closure_ctx.pop();
            }
        }
        if opaque {
            self.in_opaque_ctx -= 1;
        }
    }

    fn visit_expr_closure(&mut self, c: &'ast ExprClosure) {
        self.closure_rewritten = false;
        self.weave_closure(c);
        if !self.closure_rewritten {
            // R18: Verus rejects `_` as a closure parameter; give it a name
            for (i, p) in c.inputs.iter().enumerate() {
                if let Pat::Wild(wp) = p {
                    let r = br(wp.underscore_token.span());
                    self.fc.edit(r.0, r.1, format!("_w{i}"), "R18.closure_wild");
                }
            }
            // R18b: ... and patterns: `|(a, b)| BODY` -> `|__p0| { let (a, b) = __p0; BODY }`
            let mut destructure = String::new();
            for (i, p) in c.inputs.iter().enumerate() {
                let (pat, ty): (&Pat, Option<&Type>) = match p {
                    Pat::Type(pt) => (&*pt.pat, Some(&*pt.ty)),
                    other => (other, None),
                };
                if matches!(pat, Pat::Tuple(_) | Pat::TupleStruct(_) | Pat::Struct(_) | Pat::Reference(_)) {
                    let pr = range_of(pat);
                    let ptxt = self.fc.text(pr).to_string();
                    self.fc.edit(pr.0, pr.1, format!("__p{i}"), "R18b.closure_pattern");
                    let _ = ty;
                    destructure.push_str(&format!("let {ptxt} = __p{i}; "));
                }
            }
            if !destructure.is_empty() {
                let br_ = range_of(&*c.body);
                self.fc.edit_ord(br_.0, br_.0, format!("{{ {destructure}"), "R18b.closure_pattern", -3);
                self.fc.edit_ord(br_.1, br_.1, " }", "R18b.closure_pattern", 3);
            }
        }
        // closures nested in this closure's body are not arguments of the enclosing call
        let saved_ctx = std::mem::take(&mut self.closure_ctx);
        self.closure_depth += 1;
        // visit params' types and the body
        for p in c.inputs.iter() {
            self.visit_pat(p);
        }
        if !self.closure_rewritten {
            if let ReturnType::Type(_, t) = &c.output {
                self.visit_type(t);
            }
        }
        let saved_tail = self.closure_tail.take();
        if c.asyncness.is_none() {
            self.closure_tail = match &*c.body {
                Expr::Call(cl) => Some(range_of(cl)),
                Expr::Block(b) if b.label.is_none() && b.block.stmts.len() == 1 => match b.block.stmts.last() {
                    Some(Stmt::Expr(Expr::Call(cl), None)) => Some(range_of(cl)),
                    _ => None,
                },
                _ => None,
            };
        }
        self.visit_expr(&c.body);
        self.closure_tail = saved_tail;
        self.closure_depth -= 1;
        self.closure_ctx = saved_ctx;
    }

    fn visit_expr_loop(&mut self, e: &'ast ExprLoop) {
        self.weave_loop(&e.body);
        visit::visit_expr_loop(self, e);
    }
    fn visit_expr_while(&mut self, e: &'ast ExprWhile) {
        self.weave_loop(&e.body);
        visit::visit_expr_while(self, e);
    }
    fn visit_expr_for_loop(&mut self, e: &'ast ExprForLoop) {
        // R20: `for PAT in EXPR { BODY }` ->
        //   { let mut __it = ToIter::to_iter(EXPR); loop <invariant> { let PAT = match __it.next() { Some(x) => x, None => break }; BODY } }
        // (the desugaring of `for`, over the shim iterator)
        self.loop_no += 1;
        let n = self.loop_no;
        let inv = self.unit.as_ref().and_then(|u| u.loops.get(&n)).cloned();
        if inv.is_some() {
            self.used_loops.insert(n);
        }
        let whole = range_of(e);
        let pat_txt = self.fc.text(range_of(&*e.pat)).to_string();
        let er = range_of(&*e.expr);
        let open = br(e.body.brace_token.span.open());
        let close = br(e.body.brace_token.span.close());
        let it = format!("__it{n}");
        self.fc.edit(whole.0, er.0, format!("{{ let mut {it} = crate::shims::iter::ToIter::to_iter("), "R20.for");
        self.fc.edit(er.1, open.1, format!("); loop\n{}\n{{ let ghost __prev{n} = {it}@.items; let {pat_txt} = match {it}.next() {{ Some(__x) => __x, None => break }};", inv.unwrap_or_default()), "R20.for");
        self.fc.edit(close.0, close.1, "} }", "R20.for");
        self.visit_expr(&e.expr);
        for st in &e.body.stmts {
            self.visit_stmt(st);
        }
    }

    fn visit_expr_unsafe(&mut self, e: &'ast ExprUnsafe) {
        // R9': `unsafe { E }` where E contains no other statements: the keyword is dropped and the
        // unsafe callee (libc / memmap2 ...) is a shim with an ASSUMED contract.  Any other
        // unsafe block makes the unit non-extractable.
        if e.block.stmts.len() == 1 {
            if let Stmt::Expr(inner, None) = &e.block.stmts[0] {
                let whole = range_of(e);
                let ir = range_of(inner);
                self.fc.edit(whole.0, ir.0, "(", "R9.unsafe_call");
                self.fc.edit(ir.1, whole.1, ")", "R9.unsafe_call");
                self.visit_expr(inner);
                return;
            }
            // `unsafe { CALL; }` (statement form): the block stays, the keyword goes
            if let Stmt::Expr(inner, Some(_)) = &e.block.stmts[0] {
                // Verus accepts the block as it is; the callee's contract is an ASSUMED one
                *self.fc.rule_counts.entry("R9.unsafe_stmt_kept".to_string()).or_insert(0) += 1;
                self.visit_expr(inner);
                return;
            }
        }
        self.fc.errors.push(format!("unit {} contains an unsafe block (R9: not extractable)", self.outer_name));
        visit::visit_expr_unsafe(self, e);
    }

    fn visit_expr_match(&mut self, e: &'ast ExprMatch) {
        // R5: match E[..] { [a, b] if G => X, _ => Y }
        let mut is_slice = false;
        for arm in &e.arms {
            if let Pat::Slice(_) = &arm.pat {
                is_slice = true;
            }
        }
        if is_slice {
            let ok = (|| -> Option<()> {
                if e.arms.len() != 2 {
                    return None;
                }
                let scrut = match &*e.expr {
                    Expr::Index(ix) => {
                        if let Expr::Range(r) = &*ix.index {
                            if r.start.is_none() && r.end.is_none() {
                                Some(&*ix.expr)
                            } else {
                                None
                            }
                        } else {
                            None
                        }
                    }
                    _ => None,
                }?;
                let a0 = &e.arms[0];
                let a1 = &e.arms[1];
                let names: Vec<String> = match &a0.pat {
                    Pat::Slice(ps) => {
                        let mut v = vec![];
                        for el in ps.elems.iter() {
                            match el {
                                Pat::Ident(pi) if pi.by_ref.is_none() && pi.mutability.is_none() && pi.subpat.is_none() => v.push(pi.ident.to_string()),
                                _ => return None,
                            }
                        }
                        v
                    }
                    _ => return None,
                };
                if !matches!(&a1.pat, Pat::Wild(_)) || a1.guard.is_some() {
                    return None;
                }
                let guard = a0.guard.as_ref().map(|(_, g)| &**g);
                let whole = range_of(e);
                let sr = range_of(scrut);
                let binds: String = names
                    .iter()
                    .enumerate()
                    .map(|(i, n)| format!("let {n} = __s[{i}]; "))
                    .collect();
                // head: { let __s = <scrut>;
                self.fc.edit(whole.0, sr.0, "{ let __s = ", "R5.slice");
                let x = range_of(&*a0.body);
                let y = range_of(&*a1.body);
                match guard {
                    Some(g) => {
                        let gr = range_of(g);
                        self.fc.edit(
                            sr.1,
                            gr.0,
                            format!("; let __m = if __s.len() == {} {{ {binds}", names.len()),
                            "R5.slice",
                        );
                        self.fc.edit(gr.1, x.0, format!(" }} else {{ false }}; if __m {{ {binds}"), "R5.slice");
                    }
                    None => {
                        self.fc.edit(sr.1, x.0, format!("; if __s.len() == {} {{ {binds}", names.len()), "R5.slice");
                    }
                }
                self.fc.edit(x.1, y.0, " } else { ", "R5.slice");
                self.fc.edit(y.1, whole.1, " } }", "R5.slice");
                self.visit_expr(scrut);
                if let Some(g) = guard {
                    self.visit_expr(g);
                }
                self.visit_expr(&a0.body);
                self.visit_expr(&a1.body);
                Some(())
            })();
            if ok.is_none() {
                self.fc.errors.push(format!("unit {}: slice pattern of a shape R5 does not cover", self.outer_name));
            }
            return;
        }
        // R26: a guarded arm followed by an arm that covers the same values without binding anything
        // (`_`, or the same pattern with `_` for its bindings):
        //   `P if G => A, R => D`  ->  `P => if (G) { A } else { D }, R => D`
        // (Verus forgets everything reachable through `&mut` parameters in the arms after a guarded
        // arm; the written-out form is what the guard means when nothing else can match in between)
        for i in 0..e.arms.len().saturating_sub(1) {
            let arm = &e.arms[i];
            let next = &e.arms[i + 1];
            if let Some((if_tok, g)) = &arm.guard {
                // (the next arm must not bind anything: its body is copied into this arm)
                let next_plain = pat_wild(&next.pat) == next.pat.to_token_stream().to_string().replace(' ', "");
                let covers = next.guard.is_none() && (matches!(&next.pat, Pat::Wild(_)) || (next_plain && pat_wild(&arm.pat) == pat_wild(&next.pat)))
                    && !leaves_closure_only_break(&next.body);
                if covers {
                    let it = br(if_tok.span);
                    let gr = range_of(&**g);
                    let fa = (br(arm.fat_arrow_token.spans[0]).0, br(arm.fat_arrow_token.spans[1]).1);
                    let body = range_of(&*arm.body);
                    let d = range_of(&*next.body);
                    self.fc.edit(it.0, it.1, "=> if (", "R26.guard");
                    self.fc.edit_ord(gr.1, gr.1, ")", "R26.guard", -50);
                    self.fc.edit(fa.0, fa.1, "{", "R26.guard");
                    self.fc.edit_ord(body.1, body.1, format!(" }} else {{ \u{1}{}:{}\u{2} }}", d.0, d.1), "R26.guard", 50);
                }
            }
        }
        visit::visit_expr_match(self, e);
    }

    fn visit_macro(&mut self, mac: &'ast Macro) {
        let name: String = mac.path.segments.iter().map(|s| s.ident.to_string()).collect::<Vec<_>>().join("::");
        let whole = range_of(mac);
        if name == "format" {
            self.handle_format(mac, whole);
            return;
        }
        if name == "futures::ready" || name == "ready" {
            // R22: futures::ready!(E) -> (match E { Poll::Ready(t) => t, Poll::Pending => return Poll::Pending })
            // (its definition, written out so that the woven ghost arguments inside E are
            // seen by the verus! macro)
            if let Ok(args) = mac.parse_body_with(Punctuated::<Expr, Token![,]>::parse_terminated) {
                if args.len() == 1 {
                    let a = range_of(&args[0]);
                    self.fc.edit(whole.0, a.0, "(match ", "R22.ready");
                    self.fc.edit(a.1, whole.1, " { crate::shims::std::task::Poll::Ready(__t) => __t, crate::shims::std::task::Poll::Pending => return crate::shims::std::task::Poll::Pending })", "R22.ready");
                    self.visit_expr(&args[0]);
                    return;
                }
            }
        }
        if let Some(newname) = self.fc.cfg.macro_map.get(&name).cloned() {
            let pr = range_of(&mac.path);
            self.fc.edit(pr.0, pr.1, newname, "R1.macro");
            if let Ok(args) = mac.parse_body_with(Punctuated::<Expr, Token![,]>::parse_terminated) {
                for a in args.iter() {
                    self.visit_expr(a);
                }
            } else {
                self.fc.warnings.push(format!("macro {name}! body not parsed as expressions"));
            }
            return;
        }
        if name == "matches" {
            // R24: matches!(EXPR, PAT [if GUARD]) -> (match EXPR { PAT [if GUARD] => true, _ => false })
            // (the macro's definition, written out so that woven ghost arguments inside EXPR / GUARD
            // are seen by the verus! macro)
            let parsed = mac.parse_body_with(|input: syn::parse::ParseStream| {
                let e: Expr = input.parse()?;
                let c: Token![,] = input.parse()?;
                let _p = Pat::parse_multi_with_leading_vert(input)?;
                let mut if_span = None;
                let g = if input.peek(Token![if]) {
                    let i: Token![if] = input.parse()?;
                    if_span = Some(br(i.span));
                    Some(input.parse::<Expr>()?)
                } else {
                    None
                };
                let t = input.parse::<Option<Token![,]>>()?;
                Ok((e, c, g, t, if_span))
            });
            if let Ok((e, c, g, t, if_span)) = parsed {
                let er = range_of(&e);
                let cr = br(c.span);
                let close = match &mac.delimiter {
                    MacroDelimiter::Paren(p) => br(p.span.close()),
                    MacroDelimiter::Brace(p) => br(p.span.close()),
                    MacroDelimiter::Bracket(p) => br(p.span.close()),
                };
                let tail_start = t.map(|t| br(t.span).0).unwrap_or(close.0);
                self.fc.edit(whole.0, er.0, "(match ", "R24.matches");
                self.fc.edit(er.1, cr.1, " {", "R24.matches");
                match if_span {
                    // with a guard: the R26 form `PAT => if (GUARD) { true } else { false }, _ => false`
                    Some(is) => {
                        self.fc.edit(is.0, is.1, "=> if (", "R24.matches");
                        self.fc.edit(tail_start, whole.1, ") { true } else { false }, _ => false })", "R24.matches");
                    }
                    None => self.fc.edit(tail_start, whole.1, " => true, _ => false })", "R24.matches"),
                }
                self.visit_expr(&e);
                if let Some(g) = g {
                    self.visit_expr(&g);
                }
                return;
            }
        }
        if name == "vec" || name == "matches" || name == "panic" || name == "unimplemented" {
            if let Ok(args) = mac.parse_body_with(Punctuated::<Expr, Token![,]>::parse_terminated) {
                for a in args.iter() {
                    self.visit_expr(a);
                }
            }
            return;
        }
        self.fc.errors.push(format!("unit {}: macro {name}! is not covered by any rule", self.outer_name));
    }

    fn visit_item_use(&mut self, u: &'ast ItemUse) {
        // R1 on a `use` inside a function body
        fn root_ident(t: &UseTree) -> Option<&Ident> {
            match t {
                UseTree::Path(p) => Some(&p.ident),
                UseTree::Name(n) => Some(&n.ident),
                UseTree::Rename(n) => Some(&n.ident),
                _ => None,
            }
        }
        if u.leading_colon.is_none() {
            if let Some(id) = root_ident(&u.tree) {
                if self.fc.cfg.roots.contains(&id.to_string()) {
                    let (a, _) = br(id.span());
                    self.fc.edit_ord(a, a, "crate::shims::", "R1.use", -5);
                }
            }
        }
    }

    fn visit_item_fn(&mut self, f: &'ast ItemFn) {
        // nested fn inside a unit body
        let key = format!("{}/{}", self.outer_name, f.sig.ident);
        let nu = self.nested_units.get(&key).cloned();
        let auto_world = self.fc.auto_nested.get(&key).cloned();
        let u = nu.unwrap_or_else(|| {
            let mut u = UnitCfg::default();
            u.id = key.clone();
            u.world = auto_world.unwrap_or_else(|| "none".into());
            u
        });
        if self.nested_units.contains_key(&key) {
            let r = range_of(f);
            let l1 = line_of(self.fc.src, r.0);
            let l2 = line_of(self.fc.src, r.1);
            self.fc.edit_ord(r.0, r.0, format!("// @UNIT {} {}:{}-{}\n", u.id, self.fc.fname, l1, l2), "W.marker", -30);
            self.fc.edit_ord(r.1, r.1, "\n// @ENDUNIT", "W.marker", 30);
        }
        let listed = self.nested_units.contains_key(&key);
        let saved = self.fc.no_inline;
        let saved_probe = self.fc.no_probe;
        self.fc.no_probe = !listed;
        let taints_before = self.fc.taints.len();
        process_fn(self.fc, &f.attrs, &f.vis, &f.sig, Some(&f.block), &u, self.nested_units, &key, false);
        let nested_taints: Vec<String> = self.fc.taints[taints_before..].iter().map(|t| t.split_once('|').map(|x| x.1.to_string()).unwrap_or_default()).collect();
        self.fc.no_probe = saved_probe;
        self.fc.no_inline = saved;
        if !listed && !self.fc.no_inline {
            let simple_params = f.sig.inputs.iter().all(|a| match a {
                FnArg::Typed(pt) => matches!(&*pt.pat, Pat::Ident(pi) if pi.by_ref.is_none() && pi.subpat.is_none()),
                _ => false,
            });
            struct HasLoop(bool);
            impl<'ast> Visit<'ast> for HasLoop {
                fn visit_expr_loop(&mut self, _r: &'ast ExprLoop) { self.0 = true; }
                fn visit_expr_while(&mut self, _r: &'ast ExprWhile) { self.0 = true; }
                fn visit_expr_for_loop(&mut self, _r: &'ast ExprForLoop) { self.0 = true; }
                fn visit_expr_closure(&mut self, _c: &'ast ExprClosure) {}
                fn visit_item(&mut self, _i: &'ast Item) {}
            }
            let mut hl = HasLoop(false);
            hl.visit_block(&f.block);
            if simple_params && f.sig.generics.params.is_empty() && !hl.0 {
                let mut errs = vec![];
                let (body, _) = apply_edits(self.fc.src, range_of(&*f.block), &self.fc.edits, &mut errs);
                let body: String = body.lines().filter(|l| !l.contains("// @VACUITY")).collect::<Vec<_>>().join("\n");
                let mut params = vec![];
                for a in f.sig.inputs.iter() {
                    if let FnArg::Typed(pt) = a {
                        if let Pat::Ident(pi) = &*pt.pat {
                            let (ty, _) = apply_edits(self.fc.src, range_of(&*pt.ty), &self.fc.edits, &mut errs);
                            let ty = ty.split(", Tracked(w)").next().unwrap_or("").to_string();
                            params.push((pi.ident.to_string(), ty, pi.mutability.is_some()));
                        }
                    }
                }
                // (called in tail position of its outer function: written out as it is; anywhere else: under
                // the conditions of I1q / flattened by I1r, like a module-level helper)
                let lk = leave_kind(&f.block).unwrap_or(2);
                let rn = f.sig.output.to_token_stream().to_string();
                let ret = match &f.sig.output {
                    ReturnType::Type(_, t) => Some(apply_edits(self.fc.src, range_of(&**t), &self.fc.edits, &mut errs).0),
                    ReturnType::Default => None,
                };
                let body_flat = if lk > 0 {
                    let tk = if err_key(&rn).is_some() { 1 } else if rn.replace(' ', "").starts_with("->Option<") { 2 } else { 0 };
                    let mut el = Elim { src: self.fc.src, edits: &self.fc.edits, try_kind: tk, fuel: 48, bad: std::cell::Cell::new(false) };
                    el.seq(&[WorkItem::Stmts(&f.block.stmts, true)]).filter(|_| !el.bad.get()).map(|t| t.lines().filter(|l| !l.contains("// @VACUITY")).collect::<Vec<_>>().join("\n"))
                } else { None };
                self.fc.inline_map.insert(key.clone(), InlineInfo { params, ret, body, world: u.world.clone(), owner: None, taints: nested_taints, leaves: lk, ret_norm: rn, is_async: f.sig.asyncness.is_some(), recv: 0, body_flat, hid: u.id.clone() });
                // its own copy keeps the signature only (it is verified where it is written out)
                let st = range_of(f).0;
                self.fc.edit_ord(st, st, "#[verifier::external_body]\n", "I1.nested_tail", -31);
            }
        }
    }

    fn visit_stmt(&mut self, s: &'ast Stmt) {
        // hints anchored on the (innermost) statement that contains the k-th call of a name:
        //   anchor "call <name>#<k>"
        let seen_before = self.calls_seen.len();
        visit::visit_stmt(self, s);
        if let Some(u) = self.unit.clone() {
            let r = range_of(s);
            for (hi, h) in u.hints.iter().enumerate() {
                if self.claimed_hints.contains(&hi) {
                    continue;
                }
                let anchor = jstr(h, "anchor");
                let key = match anchor.strip_prefix("call ") {
                    Some(k) => k.trim().to_string(),
                    None => continue,
                };
                if self.calls_seen[seen_before..].iter().any(|c| *c == key) {
                    self.claimed_hints.insert(hi);
                    let wh = jstr(h, "where");
                    let t = jstr(h, "text");
                    if wh == "after" {
                        self.fc.edit_ord(r.1, r.1, format!("\n{}\n", t), "W.hint", 8);
                    } else {
                        self.fc.edit_ord(r.0, r.0, format!("{}\n", t), "W.hint", -8);
                    }
                    self.fc.rule_counts.entry(format!("hint:{}", anchor)).or_insert(0);
                }
            }
        }
    }
}

/// R1.vis: make an item / field / fn `pub` (contracts mention them across modules)
fn make_pub(fc: &mut FileCtx, vis: &Visibility, at: usize) {
    match vis {
        Visibility::Public(_) => {}
        Visibility::Inherited => fc.edit_ord(at, at, "pub ", "R1.vis", -2),
        Visibility::Restricted(r) => {
            let rr = range_of(r);
            fc.edit(rr.0, rr.1, "pub", "R1.vis");
        }
    }
}

fn type_is_asref(b: &TypeParamBound, cfg: &Cfg) -> Option<String> {
    if let TypeParamBound::Trait(tb) = b {
        let last = tb.path.segments.last()?;
        if last.ident == "AsRef" {
            if let PathArguments::AngleBracketed(ab) = &last.arguments {
                if let Some(GenericArgument::Type(t)) = ab.args.first() {
                    let s: String = t.to_token_stream().to_string().replace(' ', "");
                    // `std::path::Path` and `Path` alike
                    let last_seg = s.rsplit("::").next().unwrap_or("").to_string();
                    return cfg.asref_map.get(&s).or_else(|| cfg.asref_map.get(&last_seg)).cloned();
                }
            }
        }
    }
    None
}

/// Apply signature-level and body-level rules to one fn (free, nested, or method).
#[allow(clippy::too_many_arguments)]
fn process_fn(
    fc: &mut FileCtx,
    attrs: &[Attribute],
    _vis: &Visibility,
    sig: &Signature,
    block: Option<&Block>,
    u: &UnitCfg,
    nested: &HashMap<String, UnitCfg>,
    outer_name: &str,
    in_trait_decl: bool,
) {
    // A1: annotations follow pure renames of parameters / locals (same number of bindings in
    // the same order, different names)
    let now = fn_locals(sig, block);
    fc.locals_out.insert(u.id.clone(), now.clone());
    fc.locals_out.insert(format!("sig:{}", u.id), vec![sig_key(sig)]);
    // T1: the method names a unit calls (compared with the pinned tree's: a NEW call of a method
    // whose shim promises nothing taints the unit)
    if let Some(b) = block {
        let mut ms: HashSet<String> = HashSet::new();
        struct MCalls<'o> { out: &'o mut HashSet<String> }
        impl<'o, 'ast> Visit<'ast> for MCalls<'o> {
            fn visit_expr_method_call(&mut self, e: &'ast ExprMethodCall) {
                self.out.insert(format!("{}/{}", e.method, e.args.len()));
                visit::visit_expr_method_call(self, e);
            }
            fn visit_macro(&mut self, m: &'ast Macro) {
                if let Ok(args) = m.parse_body_with(Punctuated::<Expr, Token![,]>::parse_terminated) {
                    for a in args.iter() {
                        self.visit_expr(a);
                    }
                }
            }
        }
        MCalls { out: &mut ms }.visit_block(b);
        struct PathCalls<'o> { out: &'o mut HashSet<String> }
        impl<'o, 'ast> Visit<'ast> for PathCalls<'o> {
            fn visit_expr_call(&mut self, e: &'ast ExprCall) {
                if let Expr::Path(p) = &*e.func {
                    if let Some(l) = p.path.segments.last() {
                        self.out.insert(l.ident.to_string());
                    }
                }
                visit::visit_expr_call(self, e);
            }
            fn visit_macro(&mut self, m: &'ast Macro) {
                if let Ok(args) = m.parse_body_with(Punctuated::<Expr, Token![,]>::parse_terminated) {
                    for a in args.iter() {
                        self.visit_expr(a);
                    }
                }
            }
        }
        PathCalls { out: &mut ms }.visit_block(b);
        let mut v: Vec<String> = ms.into_iter().filter(|m| !m.contains("::")).collect();
        v.sort();
        fc.locals_out.insert(format!("mcalls:{}", u.id), v);
    }
    if matches!(_vis, Visibility::Inherited) && !in_trait_decl {
        fc.private_units.push(u.id.clone());
    }
    // nested fns that the contracts do not list get the world mode their body needs
    if let Some(b) = block {
        for st in &b.stmts {
            if let Stmt::Item(Item::Fn(nf)) = st {
                let key = format!("{}/{}", outer_name, nf.sig.ident);
                if !nested.contains_key(&key) {
                    let mut sc = EffScan { cfg: fc.cfg, auto_modes: &fc.extra_eff, mode: 0 };
                    sc.visit_block(&nf.block);
                    let md = match sc.mode { 2 => "mut", 1 => "ro", _ => "none" };
                    fc.auto_nested.insert(key.clone(), md.to_string());
                    // tail call of it with the same return type?
                    let same_ret = nf.sig.output.to_token_stream().to_string() == sig.output.to_token_stream().to_string();
                    if let Some(Stmt::Expr(last, None)) = b.stmts.last() {
                        let call = match last {
                            Expr::Call(c) => Some(c),
                            Expr::Await(a) => match &*a.base { Expr::Call(c) => Some(c), _ => None },
                            _ => None,
                        };
                        if let Some(c) = call {
                            if let Expr::Path(ep) = &*c.func {
                                if ep.path.is_ident(&nf.sig.ident) && same_ret && nf.sig.asyncness.is_some() == sig.asyncness.is_some() {
                                    fc.tail_calls.insert(key, range_of(c));
                                }
                            }
                        }
                    }
                }
            }
        }
    }
    let renamed: UnitCfg;
    let u: &UnitCfg = if !u.locals_base.is_empty() && u.locals_base.len() == now.len() && u.locals_base != now {
        let mut map: HashMap<String, String> = HashMap::new();
        let mut consistent = true;
        for (a, b) in u.locals_base.iter().zip(now.iter()) {
            // only genuine renames: the old name is gone and the new name is new (a mere
            // reordering of bindings keeps every name and needs no substitution)
            if a != b && !now.contains(a) && !u.locals_base.contains(b) {
                if let Some(prev) = map.get(a) {
                    if prev != b {
                        consistent = false;
                    }
                }
                map.insert(a.clone(), b.clone());
            }
        }
        // a name that is kept somewhere and renamed elsewhere is ambiguous: leave the text alone
        for (a, b) in u.locals_base.iter().zip(now.iter()) {
            if a == b && map.contains_key(a) {
                consistent = false;
            }
        }
        if consistent && !map.is_empty() {
            let mut r = u.clone();
            r.sig_contract = subst_idents(&r.sig_contract, &map);
            r.body_open = subst_idents(&r.body_open, &map);
            r.loops = r.loops.iter().map(|(k, v)| (*k, subst_idents(v, &map))).collect();
            r.str_slices = r.str_slices.iter().map(|x| map.get(x).cloned().unwrap_or(x.clone())).collect();
            r.hints = r.hints.iter().map(|h| {
                let mut h2 = h.clone();
                if let Some(t) = h.get("text").and_then(|x| x.as_str()) {
                    h2["text"] = Value::String(subst_idents(t, &map));
                }
                h2
            }).collect();
            let fix_closure = |v: &Value| -> Value {
                let mut v2 = v.clone();
                if let Some(t) = v.get("contract").and_then(|x| x.as_str()) {
                    v2["contract"] = Value::String(subst_idents(t, &map));
                }
                v2
            };
            r.closures = r.closures.iter().map(|(k, v)| (*k, fix_closure(v))).collect();
            r.closures_by_text = r.closures_by_text.iter().map(|(k, v)| (k.clone(), fix_closure(v))).collect();
            let mut pairs: Vec<String> = map.iter().map(|(a, b)| format!("{a}->{b}")).collect();
            pairs.sort();
            *fc.rule_counts.entry("A1.rename".to_string()).or_insert(0) += 1;
            fc.warnings.push(format!("unit {}: annotations follow renamed bindings: {}", u.id, pairs.join(", ")));
            renamed = r;
            &renamed
        } else {
            u
        }
    } else {
        u
    };
    fc.strip_attrs(attrs);
    if !u.attrs.is_empty() {
        let start = if let Some(a) = attrs.first() { range_of(a).0 } else { range_of(sig).0 };
        // place before visibility: find item start = min(attr start, vis start, sig start)
        let vs = range_of(_vis);
        let st = if vs.1 > vs.0 { vs.0.min(start) } else { start };
        fc.edit_ord(st, st, format!("{}\n", u.attrs), "W.attrs", -20);
    }
    if u.drop_body {
        let vs = range_of(_vis);
        let st = if vs.1 > vs.0 { vs.0 } else { range_of(sig).0 };
        fc.edit_ord(st, st, "#[verifier::external_body]\n", "R9.assumed", -19);
    }
    // R2: async
    if let Some(a) = &sig.asyncness {
        let (s, e) = br(a.span());
        let mut e2 = e;
        if fc.src.as_bytes().get(e2) == Some(&b' ') {
            e2 += 1;
        }
        fc.edit(s, e2, "", "R2.async");
    }
    // rename (hoisting is not done; nested fns stay nested but may be renamed)
    if let Some(n) = &u.rename {
        let r = br(sig.ident.span());
        fc.edit(r.0, r.1, n.clone(), "R14.nested.rename");
    } else if u.id.starts_with("auto:") && !outer_name.contains('/') {
        // N1: the definition of a renamed top-level helper
        if let Some(nn) = fc.code_renames.get(&sig.ident.to_string()).cloned() {
            let r = br(sig.ident.span());
            fc.edit(r.0, r.1, nn, "N1.rename");
        }
    }
    // R12: AsRef generics
    let mut asref: HashMap<String, String> = HashMap::new();
    if !u.keep_generics {
        let mut removable: Vec<&GenericParam> = vec![];
        for gp in sig.generics.params.iter() {
            if let GenericParam::Type(tp) = gp {
                let mut rep = None;
                for b in tp.bounds.iter() {
                    if let Some(r) = type_is_asref(b, fc.cfg) {
                        rep = Some(r);
                    }
                }
                if rep.is_none() {
                    if let Some(wc) = &sig.generics.where_clause {
                        for pred in wc.predicates.iter() {
                            if let WherePredicate::Type(pt) = pred {
                                if pt.bounded_ty.to_token_stream().to_string() == tp.ident.to_string() {
                                    for b in pt.bounds.iter() {
                                        if let Some(r) = type_is_asref(b, fc.cfg) {
                                            rep = Some(r);
                                        }
                                    }
                                }
                            }
                        }
                    }
                }
                if let Some(r) = rep {
                    asref.insert(tp.ident.to_string(), r);
                    removable.push(gp);
                }
            }
        }
        if !asref.is_empty() {
            let total = sig.generics.params.len();
            if removable.len() == total {
                // remove the whole <...>
                let lt = sig.generics.lt_token.as_ref().unwrap();
                let gt = sig.generics.gt_token.as_ref().unwrap();
                fc.edit(br(lt.span()).0, br(gt.span()).1, "", "R12.generics");
            } else {
                // remove individual params incl. following comma
                for (i, pair) in sig.generics.params.pairs().enumerate() {
                    let gp = pair.value();
                    if removable.iter().any(|r| std::ptr::eq(*r, *gp)) {
                        let r = range_of(*gp);
                        let mut end = r.1;
                        if let Some(p) = pair.punct() {
                            end = br(p.span()).1;
                            if fc.src.as_bytes().get(end) == Some(&b' ') {
                                end += 1;
                            }
                        }
                        let _ = i;
                        fc.edit(r.0, end, "", "R12.generics");
                    }
                }
            }
            if let Some(wc) = &sig.generics.where_clause {
                let mut keep = 0;
                for pred in wc.predicates.iter() {
                    let is_removed = if let WherePredicate::Type(pt) = pred {
                        asref.contains_key(&pt.bounded_ty.to_token_stream().to_string())
                    } else {
                        false
                    };
                    if !is_removed {
                        keep += 1;
                    }
                }
                if keep == 0 {
                    let r = range_of(wc);
                    fc.edit(r.0, r.1, "", "R12.where");
                } else {
                    for pair in wc.predicates.pairs() {
                        let pred = pair.value();
                        let is_removed = if let WherePredicate::Type(pt) = pred {
                            asref.contains_key(&pt.bounded_ty.to_token_stream().to_string())
                        } else {
                            false
                        };
                        if is_removed {
                            let r = range_of(*pred);
                            let mut end = r.1;
                            if let Some(p) = pair.punct() {
                                end = br(p.span()).1;
                            }
                            fc.edit(r.0, end, "", "R12.where");
                        }
                    }
                }
            }
        }
    }
    // R21: `self: Pin<&mut Self>` -> `&mut self` (Pin is a transparent wrapper for Unpin types)
    if let Some(FnArg::Receiver(rc)) = sig.inputs.first() {
        if rc.colon_token.is_some() {
            let ty = rc.ty.to_token_stream().to_string().replace(' ', "");
            if ty == "Pin<&mutSelf>" {
                let r = range_of(rc);
                fc.edit(r.0, r.1, "&mut self", "R21.pin_receiver");
            }
        }
    }
    // R6: mut self
    let mut mut_self = false;
    if let Some(FnArg::Receiver(rc)) = sig.inputs.first() {
        if rc.reference.is_none() && rc.mutability.is_some() && rc.colon_token.is_none() {
            mut_self = true;
            let m = rc.mutability.as_ref().unwrap();
            let (s, e) = br(m.span());
            let mut e2 = e;
            if fc.src.as_bytes().get(e2) == Some(&b' ') {
                e2 += 1;
            }
            fc.edit(s, e2, "", "R6.mutself");
        }
    }
    // R3: ghost world parameter
    if u.world != "none" {
        let close = br(sig.paren_token.span.close()).0;
        let ty = if u.world == "mut" { format!("Tracked<&mut {}>", fc.cfg.world_ty) } else { format!("Tracked<&{}>", fc.cfg.world_ty) };
        let has = !sig.inputs.is_empty();
        let trailing = sig.inputs.trailing_punct();
        let txt = if has && !trailing { format!(", Tracked(w): {ty}") } else { format!("Tracked(w): {ty}") };
        fc.edit_ord(close, close, txt, "R3.param", 5);
    }
    // return binder
    let sig_end;
    match &sig.output {
        ReturnType::Type(_, t) => {
            let r = range_of(&**t);
            if let Some(b) = &u.ret {
                fc.edit_ord(r.0, r.0, format!("({b}: "), "W.ret", -9);
                fc.edit_ord(r.1, r.1, ")", "W.ret", 3);
            }
            sig_end = r.1;
        }
        ReturnType::Default => {
            sig_end = br(sig.paren_token.span.close()).1;
        }
    }
    // contract goes after the where clause if one survives, else after the return type
    let mut contract_at = sig_end;
    if let Some(wc) = &sig.generics.where_clause {
        let r = range_of(wc);
        if r.1 > contract_at {
            contract_at = r.1;
        }
    }
    if !u.sig_contract.is_empty() {
        fc.edit_ord(contract_at, contract_at, format!("\n{}\n", u.sig_contract), "W.contract", 10);
    }
    let _ = in_trait_decl;

    // signature types + body
    let mut u2 = u.clone();
    if let ReturnType::Type(_, t) = &sig.output {
        let ts = t.to_token_stream().to_string().replace(' ', "");
        if ts.starts_with("Poll<") {
            u2.try_poll = true;
        }
    }
    let u = &u2;
    let mut bv = BodyV {
        fc,
        world: u.world.clone(),
        unit: Some(u.clone()),
        loop_no: 0,
        closure_no: 0,
        in_opaque_ctx: 0,
        asref_params: asref,
        nested_units: nested,
        outer_name: outer_name.to_string(),
        used_loops: HashSet::new(),
        used_closures: HashSet::new(),
                        used_text_closures: HashSet::new(),
                        closure_ctx: Vec::new(),
                        closure_rewritten: false,
                        closure_depth: 0,
                        awaited_call: false,
                        call_counts: HashMap::new(),
                        calls_seen: Vec::new(),
                        claimed_hints: HashSet::new(),
                        closure_counts: HashMap::new(),
        ret_norm: sig.output.to_token_stream().to_string(),
        tail_call: {
            // calls in tail position of the function: the tail expression, or the tail of a branch of it
            fn collect(e: &Expr, out: &mut Vec<(usize, usize)>) {
                match e {
                    Expr::Call(c) => out.push(range_of(c)),
                    Expr::Await(a) => if let Expr::Call(c) = &*a.base { out.push(range_of(c)) },
                    Expr::If(i) => {
                        if let Some(Stmt::Expr(t, None)) = i.then_branch.stmts.last() { collect(t, out); }
                        if let Some((_, eb)) = &i.else_branch { collect(eb, out); }
                    }
                    Expr::Match(m) => for a in &m.arms { collect(&a.body, out); },
                    Expr::Block(b) if b.label.is_none() => if let Some(Stmt::Expr(t, None)) = b.block.stmts.last() { collect(t, out); },
                    Expr::Paren(p) => collect(&p.expr, out),
                    _ => {}
                }
            }
            let mut v = vec![];
            if let Some(Stmt::Expr(t, None)) = block.and_then(|b| b.stmts.last()) { collect(t, &mut v); }
            v
        },
        try_operand: None,
        closure_tail: None,
        asref_idents: HashSet::new(),
    };
    for inp in sig.inputs.iter() {
        if let FnArg::Typed(pt) = inp {
            if let (Pat::Ident(pi), Type::Path(tp)) = (&*pt.pat, &*pt.ty) {
                if tp.qself.is_none() && tp.path.get_ident().map(|i| bv.asref_params.contains_key(&i.to_string())).unwrap_or(false) {
                    bv.asref_idents.insert(pi.ident.to_string());
                }
            }
        }
    }
    for inp in sig.inputs.iter() {
        match inp {
            FnArg::Typed(pt) => {
                bv.fc.strip_attrs(&pt.attrs);
                bv.visit_type(&pt.ty);
            }
            FnArg::Receiver(rc) => {
                if rc.colon_token.is_some() {
                    bv.visit_type(&rc.ty);
                }
            }
        }
    }
    if let ReturnType::Type(_, t) = &sig.output {
        bv.visit_type(t);
    }
    for gp in sig.generics.params.iter() {
        if let GenericParam::Type(tp) = gp {
            for b in tp.bounds.iter() {
                bv.visit_type_param_bound(b);
            }
        }
    }
    if let Some(b) = block {
        if u.drop_body {
            let r = range_of(b);
            bv.fc.edit(r.0, r.1, "{ unimplemented!() }", "R9.assumed.body");
        } else {
            let open = br(b.brace_token.span.open()).1;
            if mut_self {
                bv.fc.edit_ord(open, open, " let mut this = self;", "R6.mutself", 1);
            }
            if bv.fc.cfg.vacuity_probe && !bv.fc.no_probe {
                bv.fc.edit_ord(open, open, "\nproof { assert(false); } // @VACUITY\n", "W.vacuity_probe", 3);
            }
            if !u.body_open.is_empty() {
                bv.fc.edit_ord(open, open, format!("\n{}\n", u.body_open), "W.body_open", 2);
            }
            if mut_self {
                // rename `self` -> `this` in the body
                struct SelfRen<'x, 'y> {
                    fc: &'x mut FileCtx<'y>,
                }
                impl<'x, 'y, 'ast> Visit<'ast> for SelfRen<'x, 'y> {
                    fn visit_expr_path(&mut self, p: &'ast ExprPath) {
                        if p.path.is_ident("self") {
                            let r = range_of(&p.path);
                            self.fc.edit(r.0, r.1, "this", "R6.mutself.use");
                        }
                    }
                    fn visit_item(&mut self, _i: &'ast Item) {}
                    fn visit_macro(&mut self, m: &'ast Macro) {
                        if let Ok(args) = m.parse_body_with(Punctuated::<Expr, Token![,]>::parse_terminated) {
                            for a in args.iter() {
                                self.visit_expr(a);
                            }
                        }
                    }
                }
                let mut sr = SelfRen { fc: bv.fc };
                sr.visit_block(b);
            }
            for s in &b.stmts {
                bv.visit_stmt(s);
            }
        }
    }
    // unused directives are an anchor loss
    let ul: Vec<usize> = u.loops.keys().filter(|k| !bv.used_loops.contains(k)).cloned().collect();
    let uc: Vec<usize> = u.closures.keys().filter(|k| !bv.used_closures.contains(k)).cloned().collect();
    for k in ul {
        if !u.drop_body {
            bv.fc.degraded.push(format!("unit {}: contract names loop #{k} but the function has no such loop (annotation dropped)", u.id));
        }
    }
    for k in uc {
        if !u.drop_body {
            bv.fc.errors.push(format!("unit {}: contract names closure #{k} but the function has no such closure (anchor lost)", u.id));
        }
    }
    let ut: Vec<String> = u.closures_by_text.iter().map(|(k, _)| k.clone()).filter(|k| !bv.used_text_closures.contains(k)).collect();
    for k in ut {
        if !u.drop_body {
            bv.fc.degraded.push(format!("unit {}: contract names closure `{k}` but the function has none (annotation dropped)", u.id));
        }
    }
    if !u.drop_body && bv.loop_no > bv.used_loops.len() {
        // a loop the contracts give no invariant / decreases for (auto helper, or a loop a later
        // change introduced): verified with the trivial invariant, termination not checked
        let start = if let Some(a) = attrs.first() { range_of(a).0 } else { range_of(sig).0 };
        let vs = range_of(_vis);
        let st = if vs.1 > vs.0 { vs.0.min(start) } else { start };
        // (and with what is known before the loop about everything the loop does not modify)
        let iso = if u.attrs.contains("loop_isolation") || !u.loops.is_empty() { "" } else { "#[verifier::loop_isolation(false)]\n" };
        bv.fc.edit_ord(st, st, format!("{iso}#[verifier::exec_allows_no_decreases_clause]\n"), "W.no_decreases", -21);
        if !u.id.starts_with("auto:") {
            bv.fc.degraded.push(format!("unit {}: {} loop(s) without a contract (no invariant; termination not checked)", u.id, bv.loop_no - bv.used_loops.len()));
        }
        bv.fc.taints.push(format!("{}|{} loop(s) without an invariant", u.id, bv.loop_no - bv.used_loops.len()));
    }
    for h in &u.hints {
        let anchor = jstr(h, "anchor");
        if !u.drop_body && !bv.fc.rule_counts.contains_key(&format!("hint:{}", anchor)) {
            bv.fc.degraded.push(format!("unit {}: hint anchor `{}` not found (annotation dropped)", u.id, anchor));
            bv.fc.taints.push(format!("{}|proof hint `{}` was dropped (its anchor is gone)", u.id, anchor));
        }
    }
}

/// identifiers used as single-segment paths (calls, values, types) inside an item
struct IdentScan<'o> {
    out: &'o mut HashSet<String>,
}
/// names used as method calls inside an item
struct MethodScan<'o> {
    out: &'o mut HashSet<String>,
}
impl<'o, 'ast> Visit<'ast> for MethodScan<'o> {
    fn visit_expr_method_call(&mut self, e: &'ast ExprMethodCall) {
        self.out.insert(e.method.to_string());
        visit::visit_expr_method_call(self, e);
    }
    fn visit_expr_call(&mut self, e: &'ast ExprCall) {
        // associated functions called as `Self::name(..)` / `Type::name(..)`
        if let Expr::Path(ep) = &*e.func {
            if ep.path.segments.len() == 2 {
                self.out.insert(format!("{}::{}", ep.path.segments[0].ident, ep.path.segments[1].ident));
            }
        }
        visit::visit_expr_call(self, e);
    }
    fn visit_macro(&mut self, m: &'ast Macro) {
        if let Ok(args) = m.parse_body_with(Punctuated::<Expr, Token![,]>::parse_terminated) {
            for a in args.iter() {
                self.visit_expr(a);
            }
        }
    }
}
fn token_idents(ts: TokenStream, out: &mut HashSet<String>) {
    for tt in ts {
        match tt {
            TokenTree::Ident(i) => {
                out.insert(i.to_string());
            }
            TokenTree::Group(g) => token_idents(g.stream(), out),
            _ => {}
        }
    }
}
impl<'o, 'ast> Visit<'ast> for IdentScan<'o> {
    fn visit_path(&mut self, p: &'ast Path) {
        if p.leading_colon.is_none() && p.segments.len() == 1 {
            self.out.insert(p.segments[0].ident.to_string());
        }
        // `Type::Variant`, `Type::function`: the type may be an item of this file
        if p.leading_colon.is_none() && p.segments.len() == 2 {
            let first = p.segments[0].ident.to_string();
            if first.chars().next().map(|c| c.is_uppercase()).unwrap_or(false) && first != "Self" {
                self.out.insert(first);
            }
        }
        visit::visit_path(self, p);
    }
    fn visit_macro(&mut self, m: &'ast Macro) {
        if let Ok(args) = m.parse_body_with(Punctuated::<Expr, Token![,]>::parse_terminated) {
            for a in args.iter() {
                self.visit_expr(a);
            }
        } else {
            // e.g. matches!(x, PAT if GUARD): not a list of expressions — take every identifier
            token_idents(m.tokens.clone(), self.out);
        }
    }
}
fn collect_idents_fn(f: &ItemFn, out: &mut HashSet<String>) {
    IdentScan { out }.visit_item_fn(f);
}
fn collect_idents_method(f: &ImplItemFn, out: &mut HashSet<String>) {
    IdentScan { out }.visit_impl_item_fn(f);
}

/// world mode a function body needs, judged by the effectful calls it contains
struct EffScan<'c> {
    cfg: &'c Cfg,
    auto_modes: &'c HashMap<String, String>,
    mode: u8, // 0 none, 1 ro, 2 mut
}
impl<'c> EffScan<'c> {
    fn bump(&mut self, m: &str) {
        let v = match m.split('/').next().unwrap_or("") { "mut" => 2, "ro" => 1, _ => 0 };
        if v > self.mode {
            self.mode = v;
        }
    }
}
impl<'c, 'ast> Visit<'ast> for EffScan<'c> {
    fn visit_expr_call(&mut self, e: &'ast ExprCall) {
        if let Expr::Path(ep) = &*e.func {
            let (k2, k1) = path_key2(&ep.path);
            if let Some(m) = k2.as_ref().and_then(|k| self.cfg.eff_path.get(k)) {
                let m = m.clone();
                self.bump(&m);
            } else if k2.is_none() {
                if let Some(m) = self.auto_modes.get(&k1).or_else(|| self.cfg.eff_path.get(&k1)) {
                    let m = m.clone();
                    self.bump(&m);
                }
            }
        }
        visit::visit_expr_call(self, e);
    }
    fn visit_expr_method_call(&mut self, e: &'ast ExprMethodCall) {
        if let Some(m) = self.cfg.eff_method.get(&format!(".{}", e.method)) {
            let lit_skip = m.ends_with("/nonlit") && matches!(e.args.first(), Some(Expr::Lit(_)));
            let key = format!(".{}", e.method);
            let argc_skip = (self.cfg.eff_method_derived.contains(&key) && !self.cfg.method_argc.get(&e.method.to_string()).map(|a| a.contains(&e.args.len())).unwrap_or(false))
                || m.split_once("/argc").map(|(_, n)| n.parse::<usize>().map(|n| n != e.args.len()).unwrap_or(false)).unwrap_or(false);
            if !lit_skip && !argc_skip {
                let m = m.clone();
                self.bump(&m);
            }
        }
        visit::visit_expr_method_call(self, e);
    }
    fn visit_macro(&mut self, m: &'ast Macro) {
        if let Ok(args) = m.parse_body_with(Punctuated::<Expr, Token![,]>::parse_terminated) {
            for a in args.iter() {
                self.visit_expr(a);
            }
        }
    }
}

fn self_ty_key(t: &Type) -> String {
    t.to_token_stream().to_string().replace(' ', "")
}

/// L1 (closure lifting): the k-th closure passed to a call named `callee` inside the function
/// `at` is COPIED out as a method / free function appended at the end of the file, with the
/// signature the overlay gives; it can then carry a contract like any other unit.  Returns the
/// text to append and a log line.
fn lift_closure(src: &str, file: &File, at: &str, callee: &str, k: usize, sig: &str) -> std::result::Result<(String, String, usize, usize), String> {
    struct Find<'s> {
        callee: &'s str,
        k: usize,
        seen: usize,
        found: Option<(usize, usize, bool)>,
    }
    impl<'s, 'ast> Visit<'ast> for Find<'s> {
        fn visit_expr_call(&mut self, e: &'ast ExprCall) {
            if let Expr::Path(ep) = &*e.func {
                if ep.path.segments.last().map(|x| x.ident == self.callee).unwrap_or(false) {
                    for a in e.args.iter() {
                        if let Expr::Closure(c) = a {
                            self.seen += 1;
                            if self.seen == self.k && self.found.is_none() {
                                let r = range_of(&*c.body);
                                self.found = Some((r.0, r.1, matches!(&*c.body, Expr::Block(_))));
                            }
                        }
                    }
                }
            }
            visit::visit_expr_call(self, e);
        }
        fn visit_expr_method_call(&mut self, e: &'ast ExprMethodCall) {
            if e.method == self.callee {
                for a in e.args.iter() {
                    if let Expr::Closure(c) = a {
                        self.seen += 1;
                        if self.seen == self.k && self.found.is_none() {
                            let r = range_of(&*c.body);
                            self.found = Some((r.0, r.1, matches!(&*c.body, Expr::Block(_))));
                        }
                    }
                }
            }
            visit::visit_expr_method_call(self, e);
        }
    }
    let attrs_text = |attrs: &[Attribute]| -> String {
        attrs.iter().filter(|a| a.path().is_ident("cfg")).map(|a| src[range_of(a).0..range_of(a).1].to_string()).collect::<Vec<_>>().join("\n")
    };
    for item in &file.items {
        match item {
            Item::Impl(im) => {
                let key = impl_key(im);
                for ii in &im.items {
                    if let ImplItem::Fn(m) = ii {
                        if format!("impl:{}/{}", key, m.sig.ident) == at {
                            let mut f = Find { callee, k, seen: 0, found: None };
                            f.visit_block(&m.block);
                            let (a, b, is_block) = f.found.ok_or_else(|| format!("L1: closure {callee}#{k} not found in {at}"))?;
                            let body = if is_block { src[a..b].to_string() } else { format!("{{ {} }}", &src[a..b]) };
                            let st = src[range_of(&*im.self_ty).0..range_of(&*im.self_ty).1].to_string();
                            let l1 = line_of(src, a);
                            let l2 = line_of(src, b);
                            let text = format!("\n// L1: copy of the closure passed to `{callee}` (#{k}) in {at}, source lines {l1}-{l2}\n{}\n{}\nimpl {st} {{\n    {sig} {body}\n}}\n", attrs_text(&im.attrs), attrs_text(&m.attrs));
                            return Ok((text, format!("L1: closure {callee}#{k} of {at} (lines {l1}-{l2}) copied as `{sig}`"), l1, l2));
                        }
                    }
                }
            }
            Item::Fn(fun) => {
                if format!("fn:{}", fun.sig.ident) == at {
                    let mut f = Find { callee, k, seen: 0, found: None };
                    f.visit_block(&fun.block);
                    let (a, b, is_block) = f.found.ok_or_else(|| format!("L1: closure {callee}#{k} not found in {at}"))?;
                    let body = if is_block { src[a..b].to_string() } else { format!("{{ {} }}", &src[a..b]) };
                    let l1 = line_of(src, a);
                    let l2 = line_of(src, b);
                    let text = format!("\n// L1: copy of the closure passed to `{callee}` (#{k}) in {at}, source lines {l1}-{l2}\n{}\n{sig} {body}\n", attrs_text(&fun.attrs));
                    return Ok((text, format!("L1: closure {callee}#{k} of {at} (lines {l1}-{l2}) copied as `{sig}`"), l1, l2));
                }
            }
            _ => {}
        }
    }
    Err(format!("L1: function {at} not found"))
}

fn impl_key(i: &ItemImpl) -> String {
    let st = self_ty_key(&i.self_ty);
    match &i.trait_ {
        Some((_, p, _)) => {
            let last = p.segments.last().unwrap().ident.to_string();
            format!("{last} for {st}")
        }
        None => st,
    }
}

fn apply_edits(src: &str, range: (usize, usize), edits: &[Edit], errors: &mut Vec<String>) -> (String, Vec<Value>) {
    // collect edits inside range
    let mut es: Vec<&Edit> = edits.iter().filter(|e| e.start >= range.0 && e.end <= range.1).collect();
    es.sort_by(|a, b| (a.start, a.ord, a.end).cmp(&(b.start, b.ord, b.end)));
    let mut out = String::new();
    let mut pos = range.0;
    let mut log = vec![];
    for e in es {
        if e.start < pos {
            // overlapping: nested inside an already replaced range
            if e.end <= pos {
                continue; // swallowed by an enclosing replacement
            }
            errors.push(format!("overlapping edits at byte {} ({})", e.start, e.rule));
            continue;
        }
        out.push_str(&src[pos..e.start]);
        out.push_str(&e.text);
        log.push(json!({"rule": e.rule, "at": e.start, "removed": &src[e.start..e.end], "inserted": e.text}));
        pos = e.end;
    }
    out.push_str(&src[pos..range.1]);
    // copy placeholders `\u{1}a:b\u{2}` (rule R26): the edited text of another range of the source
    let mut guard = 0;
    while let Some(i) = out.find('\u{1}') {
        guard += 1;
        let j = match out[i..].find('\u{2}') { Some(j) => i + j, None => break };
        let spec = out[i + 1..j].to_string();
        let rep = match spec.split_once(':').and_then(|(a, b)| Some((a.parse::<usize>().ok()?, b.parse::<usize>().ok()?))) {
            Some((a, b)) if guard < 64 && a <= b && b <= src.len() => apply_edits(src, (a, b), edits, errors).0,
            _ => {
                errors.push("bad copy placeholder".to_string());
                String::new()
            }
        };
        out.replace_range(i..j + '\u{2}'.len_utf8(), &rep);
    }
    (out, log)
}

/// a pattern with its bindings replaced by `_` (rule R26: does the next arm cover this one?)
fn pat_wild(p: &Pat) -> String {
    match p {
        Pat::Wild(_) => "_".to_string(),
        Pat::Ident(pi) if pi.subpat.is_none() => {
            let n = pi.ident.to_string();
            if n.chars().next().map(|c| c.is_uppercase()).unwrap_or(false) { n } else { "_".to_string() }
        }
        Pat::TupleStruct(ts) => format!("{}({})", ts.path.to_token_stream().to_string().replace(' ', ""), ts.elems.iter().map(pat_wild).collect::<Vec<_>>().join(",")),
        Pat::Tuple(t) => format!("({})", t.elems.iter().map(pat_wild).collect::<Vec<_>>().join(",")),
        Pat::Reference(r) => format!("&{}", pat_wild(&r.pat)),
        Pat::Paren(pp) => pat_wild(&pp.pat),
        other => other.to_token_stream().to_string().replace(' ', ""),
    }
}

fn line_of(src: &str, byte: usize) -> usize {
    src[..byte].bytes().filter(|b| *b == b'\n').count() + 1
}

fn main() {
    let args: Vec<String> = std::env::args().collect();
    if args.len() != 3 {
        eprintln!("usage: extractor <config.json> <out.json>");
        std::process::exit(2);
    }
    let cfgv: Value = serde_json::from_str(&std::fs::read_to_string(&args[1]).expect("config")).expect("json");
    let mut env = CfgEnv { features: HashSet::new(), flags: HashSet::new(), kv: HashSet::new() };
    for f in cfgv["features"].as_array().unwrap() {
        env.features.insert(f.as_str().unwrap().to_string());
    }
    for f in cfgv["cfg_flags"].as_array().unwrap() {
        let s = f.as_str().unwrap();
        if let Some((k, v)) = s.split_once('=') {
            env.kv.insert((k.to_string(), v.to_string()));
        } else {
            env.flags.insert(s.to_string());
        }
    }
    let getmap = |k: &str| -> HashMap<String, String> {
        cfgv.get(k)
            .and_then(|x| x.as_object())
            .map(|m| m.iter().map(|(a, b)| (a.clone(), b.as_str().unwrap_or("").to_string())).collect())
            .unwrap_or_default()
    };
    let src_root = cfgv["src"].as_str().unwrap().to_string();
    let mut method_argc: HashMap<String, HashSet<usize>> = HashMap::new();
    let mut cross_calls: HashMap<String, HashSet<String>> = HashMap::new();
    struct CrossScan<'o> {
        out: &'o mut HashMap<String, HashSet<String>>,
    }
    impl<'o, 'ast> Visit<'ast> for CrossScan<'o> {
        fn visit_expr_call(&mut self, e: &'ast ExprCall) {
            if let Expr::Path(ep) = &*e.func {
                let n = ep.path.segments.len();
                if n >= 2 {
                    self.out.entry(ep.path.segments[n - 2].ident.to_string()).or_default().insert(ep.path.segments[n - 1].ident.to_string());
                }
            }
            visit::visit_expr_call(self, e);
        }
        fn visit_macro(&mut self, m: &'ast Macro) {
            if let Ok(args) = m.parse_body_with(Punctuated::<Expr, Token![,]>::parse_terminated) {
                for a in args.iter() {
                    self.visit_expr(a);
                }
            }
        }
    }
    for (fname, _) in cfgv["files"].as_object().unwrap() {
        if let Ok(src) = std::fs::read_to_string(format!("{}/{}", src_root, fname)) {
            if let Ok(file) = syn::parse_file(&src) {
                CrossScan { out: &mut cross_calls }.visit_file(&file);
                for item in &file.items {
                    if let Item::Impl(im) = item {
                        for ii in &im.items {
                            if let ImplItem::Fn(m) = ii {
                                if matches!(m.sig.inputs.first(), Some(FnArg::Receiver(_))) {
                                    method_argc.entry(m.sig.ident.to_string()).or_default().insert(m.sig.inputs.len() - 1);
                                }
                            }
                        }
                    }
                }
            }
        }
    }
    let cfg = Cfg {
        env,
        opaque_auto: cfgv.get("opaque_auto").and_then(|x| x.as_array()).map(|a| a.iter().map(|x| x.as_str().unwrap().to_string()).collect()).unwrap_or_default(),
        eff_method_derived: cfgv.get("effects_method_derived").and_then(|x| x.as_array()).map(|a| a.iter().map(|x| x.as_str().unwrap().to_string()).collect()).unwrap_or_default(),
        method_argc,
        cross_calls,
        roots: cfgv["roots"].as_array().unwrap().iter().map(|x| x.as_str().unwrap().to_string()).collect(),
        macro_map: getmap("macro_map"),
        path_map: getmap("path_map"),
        eff_path: getmap("effects_path"),
        eff_method: getmap("effects_method"),
        iter_renames: getmap("iter_renames"),
        asref_map: getmap("asref_map"),
        opaque_fmt_in: cfgv["opaque_fmt_in"].as_array().map(|a| a.iter().map(|x| x.as_str().unwrap().to_string()).collect()).unwrap_or_default(),
        world_ty: cfgv.get("world_ty").and_then(|x| x.as_str()).unwrap_or("crate::shims::World").to_string(),
        vacuity_probe: cfgv.get("vacuity_probe").and_then(|x| x.as_bool()).unwrap_or(false),
        no_inline_run: cfgv.get("no_inline").and_then(|x| x.as_bool()).unwrap_or(false),
        no_inline_ids: cfgv.get("no_inline_ids").and_then(|x| x.as_array()).map(|a| a.iter().filter_map(|x| x.as_str().map(|s| s.to_string())).collect()).unwrap_or_default(),
        auto_keys: cfgv.get("auto_keys").and_then(|x| x.as_array()).map(|a| a.iter().filter_map(|x| x.as_str().map(|s| s.to_string())).collect()).unwrap_or_default(),
    };
    let mut out_files = Map::new();
    let mut all_errors: Vec<String> = vec![];
    let mut total_rules: BTreeMap<String, usize> = BTreeMap::new();

    for (fname, fcfg) in cfgv["files"].as_object().unwrap() {
        let path = format!("{}/{}", src_root, fname);
        let src = match std::fs::read_to_string(&path) {
            Ok(s) => s,
            Err(e) => {
                all_errors.push(format!("cannot read {path}: {e}"));
                continue;
            }
        };
        let file = match syn::parse_file(&src) {
            Ok(f) => f,
            Err(e) => {
                all_errors.push(format!("cannot parse {path}: {e}"));
                continue;
            }
        };
        // L1: closures copied out as functions (phase 0; the rest works on the extended text)
        let mut lift_log: Vec<String> = vec![];
        let mut lift_missing: Vec<String> = vec![];
        // (byte range in the extended text, original closure lines)
        let mut lift_ranges: Vec<(usize, usize, usize, usize)> = vec![];
        let (src, file) = {
            let mut extra = String::new();
            for lv in fcfg.get("lifts").and_then(|x| x.as_array()).unwrap_or(&vec![]) {
                match lift_closure(&src, &file, &jstr(lv, "in"), &jstr(lv, "callee"), lv.get("k").and_then(|x| x.as_u64()).unwrap_or(1) as usize, &jstr(lv, "sig")) {
                    Ok((t, l, l1, l2)) => {
                        let st = src.len() + extra.len();
                        extra.push_str(&t);
                        lift_ranges.push((st, src.len() + extra.len(), l1, l2));
                        lift_log.push(l);
                    }
                    Err(e) => lift_missing.push(e),
                }
            }
            if extra.is_empty() {
                (src, file)
            } else {
                let s2 = format!("{src}{extra}");
                match syn::parse_file(&s2) {
                    Ok(f2) => (s2, f2),
                    Err(e) => {
                        all_errors.push(format!("L1: lifted text of {path} does not parse: {e}"));
                        (src, file)
                    }
                }
            }
        };
        let keep_items: HashSet<String> = fcfg["keep_items"].as_array().map(|a| a.iter().map(|x| x.as_str().unwrap().to_string()).collect()).unwrap_or_default();
        let keep_uses = fcfg.get("keep_uses").and_then(|x| x.as_bool()).unwrap_or(true);
        let drop_uses: Vec<String> = fcfg.get("drop_uses").and_then(|x| x.as_array()).map(|a| a.iter().map(|x| x.as_str().unwrap().to_string()).collect()).unwrap_or_default();
        // units: id "fn:name", "fn:outer/inner", "impl:<key>/name", "trait:Name/name"
        let mut units: HashMap<String, UnitCfg> = HashMap::new();
        for uv in fcfg["units"].as_array().unwrap_or(&vec![]) {
            let at = jstr(uv, "at");
            units.insert(at, unit_from(uv));
        }
        // ---- auto-include: same-file helper fns / consts / statics that a unit refers to but
        // the contracts do not list (e.g. introduced by a later change).  They are extracted
        // WITHOUT a contract: callers see no postcondition for them.
        let mut auto_names: Vec<String> = vec![];
        let mut auto_items: Vec<String> = vec![];
        let mut auto_types: HashSet<String> = HashSet::new();
        let mut extra_eff: HashMap<String, String> = HashMap::new();
        // M1: a nested `fn inner` that was moved to module level (the `fn outer<P: AsRef<..>>(..) {
        // fn inner(..) {..} inner(..) }` idiom undone) keeps its contract: when `outer` has no
        // nested `inner` any more and its tail expression calls a module-level function without a
        // contract that has exactly the signature the contract of `inner` was written against,
        // the contract is CHECKED against that function
        let mut rebound: Vec<String> = vec![];
        let mut rebound_names: HashSet<String> = HashSet::new();
        {
            let top: HashMap<String, &ItemFn> = file.items.iter().filter_map(|it| match it {
                Item::Fn(f) if cfg.env.attrs_on(&f.attrs).unwrap_or(false) => Some((f.sig.ident.to_string(), f)),
                _ => None,
            }).collect();
            let keys: Vec<String> = units.keys().filter(|k| k.starts_with("fn:") && k.contains('/')).cloned().collect();
            for k in keys {
                let (outer, inner) = match k[3..].split_once('/') { Some(x) => x, None => continue };
                let of = match top.get(outer) { Some(f) => f, None => continue };
                if of.block.stmts.iter().any(|st| matches!(st, Stmt::Item(Item::Fn(nf)) if nf.sig.ident == inner)) {
                    continue;
                }
                let call = match of.block.stmts.last() {
                    Some(Stmt::Expr(Expr::Call(c), None)) => c,
                    Some(Stmt::Expr(Expr::Await(a), None)) => match &*a.base { Expr::Call(c) => c, _ => continue },
                    _ => continue,
                };
                let g = match &*call.func {
                    Expr::Path(p) => match p.path.get_ident() { Some(i) => i.to_string(), None => continue },
                    _ => continue,
                };
                let gf = match top.get(&g) { Some(f) => f, None => continue };
                if units.contains_key(&format!("fn:{g}")) {
                    continue;
                }
                let u = units[&k].clone();
                if u.sig_base.is_empty() || u.sig_base != sig_key(&gf.sig) {
                    continue;
                }
                units.remove(&k);
                let mut u2 = u.clone();
                u2.rename = None;
                units.insert(format!("fn:{g}"), u2);
                extra_eff.insert(g.clone(), u.world.clone());
                rebound_names.insert(g.clone());
                rebound.push(format!("{fname}: the contract of nested `{outer}::{inner}` ({}) is checked against module-level `{g}` (same signature, called in tail position of `{outer}`)", u.id));
            }
        }
        // M2: the converse - a nested `fn inner` that was written out into its `outer` (which now
        // starts with `let cache = cache.as_ref();`): the loop / closure / hint annotations of
        // `inner` are CHECKED against `outer` when `outer` has none of its own
        {
            let keys: Vec<String> = units.keys().filter(|k| k.matches('/').count() >= 1 && !rebound_names.contains(*k)).cloned().collect();
            for k in keys {
                let (okey, inner) = match k.rsplit_once('/') { Some(x) => x, None => continue };
                if !units.contains_key(okey) {
                    continue;
                }
                // the block of the outer function
                let mut oblock: Option<&Block> = None;
                for it in &file.items {
                    match it {
                        Item::Fn(f) if okey == format!("fn:{}", f.sig.ident) && cfg.env.attrs_on(&f.attrs).unwrap_or(false) => oblock = Some(&*f.block),
                        Item::Impl(im) if cfg.env.attrs_on(&im.attrs).unwrap_or(false) => {
                            let ik = impl_key(im);
                            for ii in &im.items {
                                if let ImplItem::Fn(m) = ii {
                                    if okey == format!("impl:{}/{}", ik, m.sig.ident) && cfg.env.attrs_on(&m.attrs).unwrap_or(false) {
                                        oblock = Some(&m.block);
                                    }
                                }
                            }
                        }
                        _ => {}
                    }
                }
                let ob = match oblock { Some(b) => b, None => continue };
                if ob.stmts.iter().any(|st| matches!(st, Stmt::Item(Item::Fn(nf)) if nf.sig.ident == inner)) {
                    continue;
                }
                let iu = units[&k].clone();
                let ou = units.get_mut(okey).unwrap();
                if ou.drop_body || !(ou.loops.is_empty() && ou.closures.is_empty() && ou.closures_by_text.is_empty() && ou.hints.is_empty())
                    || (iu.loops.is_empty() && iu.closures.is_empty() && iu.closures_by_text.is_empty() && iu.hints.is_empty() && iu.body_open.is_empty()) {
                    continue;
                }
                ou.loops = iu.loops.clone();
                ou.closures = iu.closures.clone();
                ou.closures_by_text = iu.closures_by_text.clone();
                ou.hints = iu.hints.clone();
                if ou.body_open.is_empty() {
                    ou.body_open = iu.body_open.clone();
                }
                if ou.str_slices.is_empty() {
                    ou.str_slices = iu.str_slices.clone();
                }
                if ou.attrs.is_empty() {
                    ou.attrs = iu.attrs.clone();
                }
                rebound.push(format!("{fname}: nested `{inner}` of `{okey}` is gone: its loop/closure/hint annotations ({}) are checked against `{okey}` itself", iu.id));
            }
        }
        {
            let mut top_fns: HashMap<String, &ItemFn> = HashMap::new();
            let mut top_vals: HashSet<String> = HashSet::new();
            let mut top_types: HashMap<String, &Item> = HashMap::new();
            for item in &file.items {
                match item {
                    Item::Fn(f) => {
                        if cfg.env.attrs_on(&f.attrs).unwrap_or(false) {
                            top_fns.insert(f.sig.ident.to_string(), f);
                        }
                    }
                    Item::Const(c) => {
                        if cfg.env.attrs_on(&c.attrs).unwrap_or(false) {
                            top_vals.insert(c.ident.to_string());
                        }
                    }
                    Item::Static(c) => {
                        if cfg.env.attrs_on(&c.attrs).unwrap_or(false) {
                            top_vals.insert(c.ident.to_string());
                        }
                    }
                    Item::Type(c) => {
                        if cfg.env.attrs_on(&c.attrs).unwrap_or(false) {
                            top_vals.insert(c.ident.to_string());
                        }
                    }
                    Item::Struct(c) => {
                        if cfg.env.attrs_on(&c.attrs).unwrap_or(false) {
                            top_types.insert(c.ident.to_string(), item);
                        }
                    }
                    Item::Enum(c) => {
                        if cfg.env.attrs_on(&c.attrs).unwrap_or(false) {
                            top_types.insert(c.ident.to_string(), item);
                        }
                    }
                    _ => {}
                }
            }
            // identifiers referenced from the listed units
            let mut seen: HashSet<String> = HashSet::new();
            // ... and functions of this module that other covered files call by path
            let stem = fname.rsplit('/').next().unwrap_or("").trim_end_matches(".rs").to_string();
            let extra_defined: HashSet<String> = fcfg.get("extra_fn_names").and_then(|x| x.as_array()).map(|a| a.iter().map(|x| x.as_str().unwrap_or("").to_string()).collect()).unwrap_or_default();
            if let Some(names) = cfg.cross_calls.get(&stem) {
                for n in names {
                    if top_fns.contains_key(n) && !extra_defined.contains(n) {
                        seen.insert(n.clone());
                    }
                }
            }
            for item in &file.items {
                match item {
                    Item::Fn(f) => {
                        if units.get(&format!("fn:{}", f.sig.ident)).map(|u| !u.drop_body).unwrap_or(false) {
                            collect_idents_fn(f, &mut seen);
                        }
                    }
                    Item::Impl(im) => {
                        let key = impl_key(im);
                        for ii in &im.items {
                            if let ImplItem::Fn(m) = ii {
                                if units.get(&format!("impl:{}/{}", key, m.sig.ident)).map(|u| !u.drop_body).unwrap_or(false) {
                                    collect_idents_method(m, &mut seen);
                                }
                            }
                        }
                    }
                    _ => {}
                }
            }
            // ... and what the fields of the kept struct / enum items mention
            for item in &file.items {
                let kept = match item {
                    Item::Struct(c) => keep_items.contains(&c.ident.to_string()),
                    Item::Enum(c) => keep_items.contains(&c.ident.to_string()),
                    _ => false,
                };
                if kept {
                    struct FieldIdents<'o> {
                        out: &'o mut HashSet<String>,
                    }
                    impl<'o, 'ast> Visit<'ast> for FieldIdents<'o> {
                        fn visit_path(&mut self, p: &'ast Path) {
                            for sgm in p.segments.iter() {
                                self.out.insert(sgm.ident.to_string());
                            }
                            visit::visit_path(self, p);
                        }
                    }
                    FieldIdents { out: &mut seen }.visit_item(item);
                }
            }
            let mut work: Vec<String> = seen.iter().cloned().collect();
            let mut done: HashSet<String> = HashSet::new();
            while let Some(n) = work.pop() {
                if !done.insert(n.clone()) {
                    continue;
                }
                if let Some(f) = top_fns.get(&n) {
                    if !units.contains_key(&format!("fn:{n}")) {
                        auto_names.push(n.clone());
                        let mut more = HashSet::new();
                        if !cfg.opaque_auto.contains(&format!("auto:{}:{}", fname, n)) {
                            collect_idents_fn(f, &mut more);
                        } else {
                            IdentScan { out: &mut more }.visit_signature(&f.sig);
                        }
                        work.extend(more.into_iter());
                    }
                } else if top_vals.contains(&n) && !keep_items.contains(&n) && !cfg.opaque_auto.contains(&format!("item:{}:{}", fname, n)) {
                    auto_items.push(n.clone());
                    // what the item's type / initialiser mentions
                    for item in &file.items {
                        let hit = match item {
                            Item::Const(c) => c.ident == n,
                            Item::Static(c) => c.ident == n,
                            Item::Type(c) => c.ident == n,
                            _ => false,
                        };
                        if hit {
                            struct AllIdents<'o> {
                                out: &'o mut HashSet<String>,
                            }
                            impl<'o, 'ast> Visit<'ast> for AllIdents<'o> {
                                fn visit_path(&mut self, p: &'ast Path) {
                                    for sgm in p.segments.iter() {
                                        self.out.insert(sgm.ident.to_string());
                                    }
                                    visit::visit_path(self, p);
                                }
                            }
                            let mut more = HashSet::new();
                            AllIdents { out: &mut more }.visit_item(item);
                            more.remove(&n);
                            work.extend(more.into_iter());
                        }
                    }
                } else if top_types.contains_key(&n) && !keep_items.contains(&n) && !cfg.opaque_auto.contains(&format!("item:{}:{}", fname, n)) {
                    // a struct / enum of this file that the contracts do not list (introduced by a
                    // later change): copied like a kept item, its inherent methods become
                    // contract-less units, its trait impls (Drop, ...) are left out
                    auto_items.push(n.clone());
                    auto_types.insert(n.clone());
                    struct TyIdents<'o> {
                        out: &'o mut HashSet<String>,
                    }
                    impl<'o, 'ast> Visit<'ast> for TyIdents<'o> {
                        fn visit_path(&mut self, p: &'ast Path) {
                            for sgm in p.segments.iter() {
                                self.out.insert(sgm.ident.to_string());
                            }
                            visit::visit_path(self, p);
                        }
                    }
                    let mut more = HashSet::new();
                    TyIdents { out: &mut more }.visit_item(top_types[&n]);
                    for item in &file.items {
                        if let Item::Impl(im) = item {
                            if im.trait_.is_none() && self_ty_key(&im.self_ty).split('<').next().unwrap_or("") == n && cfg.env.attrs_on(&im.attrs).unwrap_or(false) {
                                for ii in &im.items {
                                    if let ImplItem::Fn(m) = ii {
                                        collect_idents_method(m, &mut more);
                                    }
                                }
                            }
                        }
                    }
                    more.remove(&n);
                    work.extend(more.into_iter());
                }
            }
            // world modes of the auto helpers (fixpoint over their mutual calls)
            let mut modes: HashMap<String, String> = auto_names.iter().map(|n| (n.clone(), "none".to_string())).collect();
            loop {
                let mut changed = false;
                for n in &auto_names {
                    let f = top_fns[n];
                    let mut sc = EffScan { cfg: &cfg, auto_modes: &modes, mode: 0 };
                    sc.visit_block(&f.block);
                    let m = match sc.mode { 2 => "mut", 1 => "ro", _ => "none" };
                    if modes[n] != m {
                        modes.insert(n.clone(), m.to_string());
                        changed = true;
                    }
                }
                if !changed {
                    break;
                }
            }
            for n in &auto_names {
                let mut u = UnitCfg::default();
                u.id = format!("auto:{}:{}", fname, n);
                u.world = modes[n].clone();
                u.drop_body = cfg.opaque_auto.contains(&u.id);
                extra_eff.insert(n.clone(), modes[n].clone());
                units.insert(format!("fn:{n}"), u);
            }
            // methods: an inherent method that a listed unit calls by name, in an impl block of
            // this file, which the contracts do not list
            let mut called: HashSet<String> = HashSet::new();
            for item in &file.items {
                match item {
                    Item::Fn(f) => {
                        if units.get(&format!("fn:{}", f.sig.ident)).map(|u| !u.drop_body).unwrap_or(false) {
                            MethodScan { out: &mut called }.visit_item_fn(f);
                        }
                    }
                    Item::Impl(im) => {
                        let key = impl_key(im);
                        for ii in &im.items {
                            if let ImplItem::Fn(m) = ii {
                                if units.get(&format!("impl:{}/{}", key, m.sig.ident)).map(|u| !u.drop_body).unwrap_or(false) {
                                    MethodScan { out: &mut called }.visit_impl_item_fn(m);
                                }
                            }
                        }
                    }
                    _ => {}
                }
            }
            for item in &file.items {
                if let Item::Impl(im) = item {
                    if im.trait_.is_some() || !cfg.env.attrs_on(&im.attrs).unwrap_or(false) {
                        continue;
                    }
                    let key = impl_key(im);
                    // only impl blocks of types the contracts already cover (some method is a unit)
                    let covered = im.items.iter().any(|ii| if let ImplItem::Fn(m) = ii { units.get(&format!("impl:{}/{}", key, m.sig.ident)).map(|u| !u.id.starts_with("auto:")).unwrap_or(false) } else { false });
                    let base_ty = self_ty_key(&im.self_ty).split('<').next().unwrap_or("").to_string();
                    // inherent impl blocks of KEPT types that the contracts do not mention at all
                    // (a new `impl SerializableMetadata { fn into_record(..) }`) are taken whole,
                    // like those of auto-included types
                    let of_auto_type = auto_types.contains(&base_ty) || (!covered && keep_items.contains(&base_ty));
                    if !covered && !of_auto_type {
                        continue;
                    }
                    for ii in &im.items {
                        if let ImplItem::Fn(m) = ii {
                            let n = m.sig.ident.to_string();
                            let at = format!("impl:{}/{}", key, n);
                            let has_self = matches!(m.sig.inputs.first(), Some(FnArg::Receiver(_)));
                            let assoc_called = !has_self && (called.contains(&format!("Self::{n}")) || called.contains(&format!("{}::{n}", self_ty_key(&im.self_ty))));
                            if ((has_self && called.contains(&n)) || assoc_called || of_auto_type) && !units.contains_key(&at) && cfg.env.attrs_on(&m.attrs).unwrap_or(false)
                                && (!cfg.eff_method.contains_key(&format!(".{n}")) || cfg.eff_method_derived.contains(&format!(".{n}")) || of_auto_type) {
                                let mut sc = EffScan { cfg: &cfg, auto_modes: &modes, mode: 0 };
                                sc.visit_block(&m.block);
                                let md = match sc.mode { 2 => "mut", 1 => "ro", _ => "none" };
                                let mut u = UnitCfg::default();
                                u.id = format!("auto:{}:{}::{}", fname, key, n);
                                u.world = md.to_string();
                                u.drop_body = cfg.opaque_auto.contains(&u.id);
                                if has_self {
                                    extra_eff.insert(format!(".{n}"), md.to_string());
                                } else {
                                    // associated function: `Type::f(..)` from anywhere, `Self::f(..)` inside the impl
                                    extra_eff.insert(format!("{base_ty}::{n}"), md.to_string());
                                    extra_eff.insert(format!("Self::{n}"), md.to_string());
                                }
                                units.insert(at, u);
                                auto_names.push(format!("{key}::{n}"));
                            }
                        }
                    }
                }
            }
        }
        // N1: an auto-included function whose name an overlay spec function already has
        let extra_defined2: HashSet<String> = fcfg.get("extra_fn_names").and_then(|x| x.as_array()).map(|a| a.iter().map(|x| x.as_str().unwrap_or("").to_string()).collect()).unwrap_or_default();
        let mut code_renames: HashMap<String, String> = HashMap::new();
        for n in &auto_names {
            if extra_defined2.contains(n) {
                code_renames.insert(n.clone(), format!("{n}_code"));
            }
        }
        let mut keep_items = keep_items;
        for n in &auto_items {
            keep_items.insert(n.clone());
        }
        let item_extra: HashMap<String, String> = fcfg
            .get("item_extra")
            .and_then(|x| x.as_object())
            .map(|m| m.iter().map(|(a, b)| (a.clone(), b.as_str().unwrap_or("").to_string())).collect())
            .unwrap_or_default();
        // nested map: "outer/inner" -> cfg
        let mut nested: HashMap<String, UnitCfg> = HashMap::new();
        for (at, u) in &units {
            if let Some(rest) = at.strip_prefix("fn:") {
                if rest.contains('/') {
                    nested.insert(rest.to_string(), u.clone());
                }
            }
            if let Some(rest) = at.strip_prefix("impl:") {
                // "impl:Key/method/inner" -> nested key "method/inner"
                let parts: Vec<&str> = rest.rsplitn(3, '/').collect();
                if parts.len() == 3 {
                    nested.insert(format!("{}/{}/{}", parts[2], parts[1], parts[0]), u.clone());
                }
            }
        }
        let mut field_types: HashMap<String, String> = HashMap::new();
        for item in &file.items {
            if let Item::Struct(st) = item {
                for f in st.fields.iter() {
                    if let Some(id) = &f.ident {
                        field_types.insert(id.to_string(), f.ty.to_token_stream().to_string().replace(' ', ""));
                    }
                }
            }
        }
        let mut fc = FileCtx { cfg: &cfg, src: &src, edits: vec![], rule_counts: BTreeMap::new(), errors: vec![], warnings: vec![], degraded: vec![], extra_eff: extra_eff.clone(), fname: fname.clone(), ro_violations: vec![], field_types: field_types.clone(), locals_out: BTreeMap::new(), private_units: vec![], code_renames: code_renames.clone(), auto_nested: HashMap::new(), tail_calls: HashMap::new(), inline_map: HashMap::new(), no_inline: cfg.no_inline_run, no_probe: false, taints: vec![], rebound_names: rebound_names.clone() };
        // segments to keep: (start, end, kind, name)
        let mut segs: Vec<(usize, usize, String, String)> = vec![];
        let mut found_units: HashSet<String> = HashSet::new();
        let mut found_items: HashSet<String> = HashSet::new();
        let mut dropped: Vec<String> = vec![];
        // items that exist but are compiled out in this flavour
        let mut cfg_off_items: HashSet<String> = HashSet::new();

        // I1: a same-file helper function without a contract (auto-included), whose body has no
        // `return` / `?`, no generics and only plain parameters, is ALSO written out at its call
        // sites - `f(a, b)` -> `({ let __i0 = a; let __i1 = b; { let p: T = __i0; let q: U = __i1; BODY } })`
        // (argument evaluation order and by-value passing as for a call) - so that extracting a
        // helper out of a verified function does not cost the proof of its caller.  The helper
        // itself is still emitted and verified on its own.
        let mut inlined_helpers: Vec<String> = vec![];
        let mut inline_ats: Vec<String> = vec![];
        // two passes: in the second one a helper body may itself have other helpers written out
        // (bodies of the first pass, which contain no nested write-outs: depth 2, no recursion)
        for pass in 0..2 {
        let seed_map: HashMap<String, InlineInfo> = if pass == 0 { HashMap::new() } else { fc.inline_map.clone() };
        let mut next_map: HashMap<String, InlineInfo> = HashMap::new();
        for item in file.items.iter().filter(|_| !cfg.no_inline_run) {
            if let Item::Fn(f) = item {
                let name = f.sig.ident.to_string();
                let at = format!("fn:{}", name);
                let u = match units.get(&at) {
                    Some(u) if u.id.starts_with("auto:") && !u.drop_body && !cfg.no_inline_ids.contains(&u.id) => u.clone(),
                    _ => continue,
                };
                if !cfg.env.attrs_on(&f.attrs).unwrap_or(false) {
                    continue;
                }
                let simple_params = f.sig.inputs.iter().all(|a| match a {
                    FnArg::Typed(pt) => matches!(&*pt.pat, Pat::Ident(pi) if pi.by_ref.is_none() && pi.subpat.is_none()),
                    _ => false,
                });
                let mut ids = HashSet::new();
                IdentScan { out: &mut ids }.visit_block(&f.block);
                let lk = match leave_kind(&f.block) { Some(k) => k, None => continue };
                if !simple_params || !f.sig.generics.params.is_empty() || ids.contains(&name) {
                    continue;
                }
                let mut scratch = FileCtx { cfg: &cfg, src: &src, edits: vec![], rule_counts: BTreeMap::new(), errors: vec![], warnings: vec![], degraded: vec![], extra_eff: extra_eff.clone(), fname: fname.clone(), ro_violations: vec![], field_types: field_types.clone(), locals_out: BTreeMap::new(), private_units: vec![], code_renames: code_renames.clone(), auto_nested: HashMap::new(), tail_calls: HashMap::new(), inline_map: seed_map.clone(), no_inline: pass == 0, no_probe: false, taints: vec![], rebound_names: rebound_names.clone() };
                process_fn(&mut scratch, &f.attrs, &f.vis, &f.sig, Some(&f.block), &u, &nested, &name, false);
                let mut errs = vec![];
                let (body, _) = apply_edits(&src, range_of(&*f.block), &scratch.edits, &mut errs);
                // the vacuity probe belongs to a standalone copy only
                let body: String = body.lines().filter(|l| !l.contains("// @VACUITY")).collect::<Vec<_>>().join("\n");
                inlined_helpers.push(u.id.clone());
                let mut params = vec![];
                for a in f.sig.inputs.iter() {
                    if let FnArg::Typed(pt) = a {
                        if let Pat::Ident(pi) = &*pt.pat {
                            let (ty, _) = apply_edits(&src, range_of(&*pt.ty), &scratch.edits, &mut errs);
                            // (the ghost world parameter is woven in right after the last type)
                            let ty = ty.split(", Tracked(w)").next().unwrap_or("").to_string();
                            params.push((pi.ident.to_string(), ty, pi.mutability.is_some()));
                        }
                    }
                }
                let ret = match &f.sig.output {
                    ReturnType::Type(_, t) => Some(apply_edits(&src, range_of(&**t), &scratch.edits, &mut errs).0),
                    ReturnType::Default => None,
                };
                let body_flat = if lk > 0 {
                    let rn = f.sig.output.to_token_stream().to_string();
                    let tk = if err_key(&rn).is_some() { 1 } else if rn.replace(' ', "").starts_with("->Option<") { 2 } else { 0 };
                    let mut el = Elim { src: &src, edits: &scratch.edits, try_kind: tk, fuel: 48, bad: std::cell::Cell::new(false) };
                    el.seq(&[WorkItem::Stmts(&f.block.stmts, true)]).filter(|_| !el.bad.get())
                } else { None };
                next_map.insert(name.clone(), InlineInfo { hid: u.id.clone(), body_flat, recv: 0, leaves: lk, ret_norm: f.sig.output.to_token_stream().to_string(), is_async: f.sig.asyncness.is_some(), params, ret, body, world: u.world.clone(), owner: None, taints: scratch.taints.iter().map(|t| t.split_once('|').map(|x| x.1.to_string()).unwrap_or_default()).collect() });
                inline_ats.push(at.clone());
            }
        }

        // I1 for associated functions without a receiver (`Self::helper(..)`): rendered by a dry run
        // into a scratch context (their real copy is emitted with their impl block below)
        for item in file.items.iter().filter(|_| !cfg.no_inline_run) {
            if let Item::Impl(im) = item {
                if im.trait_.is_some() || !cfg.env.attrs_on(&im.attrs).unwrap_or(false) {
                    continue;
                }
                let key = impl_key(im);
                for ii in &im.items {
                    if let ImplItem::Fn(m) = ii {
                        let name = m.sig.ident.to_string();
                        let at = format!("impl:{}/{}", key, name);
                        let u = match units.get(&at) {
                            Some(u) if u.id.starts_with("auto:") && !u.drop_body && !cfg.no_inline_ids.contains(&u.id) => u.clone(),
                            _ => continue,
                        };
                        // I1m: `&self` / `&mut self` / `self` methods are written out too (see the call site)
                        let recv_kind: u8 = match m.sig.inputs.first() {
                            Some(FnArg::Receiver(r)) if r.colon_token.is_none() => match (&r.reference, r.mutability.is_some()) {
                                (Some(_), false) => 1,
                                (Some(_), true) => 2,
                                (None, false) => 3,
                                (None, true) => 9,
                            },
                            Some(FnArg::Receiver(_)) => 9,
                            _ => 0,
                        };
                        if recv_kind == 9 {
                            continue;
                        }
                        let simple_params = m.sig.inputs.iter().all(|a| match a {
                            FnArg::Typed(pt) => matches!(&*pt.pat, Pat::Ident(pi) if pi.by_ref.is_none() && pi.subpat.is_none()),
                            FnArg::Receiver(_) => true,
                        });
                        let mut ids = HashSet::new();
                        MethodScan { out: &mut ids }.visit_block(&m.block);
                        if recv_kind != 0 && ids.contains(&name) {
                            continue;
                        }
                        let lk = match leave_kind(&m.block) { Some(k) => k, None => continue };
                        if !simple_params || !m.sig.generics.params.is_empty()
                            || ids.contains(&format!("Self::{name}")) || !cfg.env.attrs_on(&m.attrs).unwrap_or(false) || next_map.contains_key(&format!("::{name}")) || next_map.contains_key(&format!(".{name}")) {
                            continue;
                        }
                        let mut scratch = FileCtx { cfg: &cfg, src: &src, edits: vec![], rule_counts: BTreeMap::new(), errors: vec![], warnings: vec![], degraded: vec![], extra_eff: extra_eff.clone(), fname: fname.clone(), ro_violations: vec![], field_types: field_types.clone(), locals_out: BTreeMap::new(), private_units: vec![], code_renames: code_renames.clone(), auto_nested: HashMap::new(), tail_calls: HashMap::new(), inline_map: seed_map.clone(), no_inline: pass == 0, no_probe: false, taints: vec![], rebound_names: rebound_names.clone() };
                        process_fn(&mut scratch, &m.attrs, &m.vis, &m.sig, Some(&m.block), &u, &nested, &name, false);
                        let mut errs = vec![];
                        let (body, _) = apply_edits(&src, range_of(&m.block), &scratch.edits, &mut errs);
                        let body: String = body.lines().filter(|l| !l.contains("// @VACUITY")).collect::<Vec<_>>().join("\n");
                        let mut params = vec![];
                        for a in m.sig.inputs.iter() {
                            if let FnArg::Typed(pt) = a {
                                if let Pat::Ident(pi) = &*pt.pat {
                                    let (ty, _) = apply_edits(&src, range_of(&*pt.ty), &scratch.edits, &mut errs);
                                    let ty = ty.split(", Tracked(w)").next().unwrap_or("").to_string();
                                    params.push((pi.ident.to_string(), ty, pi.mutability.is_some()));
                                }
                            }
                        }
                        let ret = match &m.sig.output {
                            ReturnType::Type(_, t) => Some(apply_edits(&src, range_of(&**t), &scratch.edits, &mut errs).0),
                            ReturnType::Default => None,
                        };
                        // `Self` means the impl's type, also where the body is written out elsewhere
                        let mut selfmap: HashMap<String, String> = HashMap::new();
                        selfmap.insert("Self".to_string(), src[range_of(&*im.self_ty).0..range_of(&*im.self_ty).1].to_string());
                        if recv_kind != 0 {
                            selfmap.insert("self".to_string(), "__self".to_string());
                        }
                        let body = subst_idents(&body, &selfmap);
                        let params: Vec<(String, String, bool)> = params.into_iter().map(|(a, t, m)| (a, subst_idents(&t, &selfmap), m)).collect();
                        let ret = ret.map(|t| subst_idents(&t, &selfmap));
                        let body_flat = if lk > 0 {
                            let rn = m.sig.output.to_token_stream().to_string();
                            let tk = if err_key(&rn).is_some() { 1 } else if rn.replace(' ', "").starts_with("->Option<") { 2 } else { 0 };
                            let mut el = Elim { src: &src, edits: &scratch.edits, try_kind: tk, fuel: 48, bad: std::cell::Cell::new(false) };
                            el.seq(&[WorkItem::Stmts(&m.block.stmts, true)]).filter(|_| !el.bad.get()).map(|t| subst_idents(&t, &selfmap))
                        } else { None };
                        next_map.insert(if recv_kind == 0 { format!("::{name}") } else { format!(".{name}") }, InlineInfo { hid: u.id.clone(), body_flat, recv: recv_kind, leaves: lk, ret_norm: subst_idents(&m.sig.output.to_token_stream().to_string(), &selfmap), is_async: m.sig.asyncness.is_some(), params, ret, body, world: u.world.clone(), owner: Some(self_ty_key(&im.self_ty)), taints: scratch.taints.iter().map(|t| t.split_once('|').map(|x| x.1.to_string()).unwrap_or_default()).collect() });
                        inlined_helpers.push(u.id.clone());
                        inline_ats.push(at.clone());
                    }
                }
            }
        }

        fc.inline_map = next_map;
        }
        inlined_helpers.sort(); inlined_helpers.dedup(); inline_ats.sort(); inline_ats.dedup();
        // an inlined helper's standalone copy keeps its signature only (it is verified in the
        // context of each caller; a call that is not written out knows nothing about its result)
        for at in &inline_ats {
            if let Some(u) = units.get_mut(at) {
                u.drop_body = true;
            }
        }
        for item in &file.items {
            let (attrs, name): (&[Attribute], String) = match item {
                Item::Use(i) => (&i.attrs, "use".into()),
                Item::Struct(i) => (&i.attrs, i.ident.to_string()),
                Item::Enum(i) => (&i.attrs, i.ident.to_string()),
                Item::Const(i) => (&i.attrs, i.ident.to_string()),
                Item::Static(i) => (&i.attrs, i.ident.to_string()),
                Item::Type(i) => (&i.attrs, i.ident.to_string()),
                Item::Trait(i) => (&i.attrs, i.ident.to_string()),
                Item::Fn(i) => (&i.attrs, i.sig.ident.to_string()),
                Item::Impl(i) => (&i.attrs, impl_key(i)),
                Item::Mod(i) => (&i.attrs, i.ident.to_string()),
                Item::Macro(i) => (&i.attrs, "macro".into()),
                _ => (&[], "other".into()),
            };
            match cfg.env.attrs_on(attrs) {
                Ok(true) => {}
                Ok(false) => {
                    cfg_off_items.insert(name.clone());
                    continue;
                }
                Err(e) => {
                    fc.errors.push(format!("cfg on {name}: {e}"));
                    continue;
                }
            }
            let r = range_of(item);
            match item {
                Item::Use(u) => {
                    let txt = fc.text(r).to_string();
                    if !keep_uses || drop_uses.iter().any(|d| txt.contains(d.as_str())) {
                        continue;
                    }
                    fc.strip_attrs(&u.attrs);
                    // R1 on use tree root
                    fn root_ident(t: &UseTree) -> Option<&Ident> {
                        match t {
                            UseTree::Path(p) => Some(&p.ident),
                            UseTree::Name(n) => Some(&n.ident),
                            UseTree::Rename(n) => Some(&n.ident),
                            _ => None,
                        }
                    }
                    if u.leading_colon.is_none() {
                        if let Some(id) = root_ident(&u.tree) {
                            if cfg.roots.contains(&id.to_string()) {
                                let (a, _) = br(id.span());
                                fc.edit_ord(a, a, "crate::shims::", "R1.use", -5);
                            }
                        }
                    }
                    // visibility -> keep as is
                    segs.push((r.0, r.1, "use".into(), txt.lines().next().unwrap_or("").to_string()));
                }
                Item::Struct(_) | Item::Enum(_) | Item::Const(_) | Item::Type(_) | Item::Static(_) => {
                    if !keep_items.contains(&name) {
                        dropped.push(format!("item {name}"));
                        continue;
                    }
                    found_items.insert(name.clone());
                    fc.strip_attrs(attrs);
                    if auto_types.contains(&name) {
                        // an auto-included type keeps the derives Verus understands
                        let mut keep: Vec<String> = vec![];
                        for a in attrs.iter() {
                            if a.path().is_ident("derive") {
                                let _ = a.parse_nested_meta(|m| {
                                    if let Some(id) = m.path.get_ident() {
                                        let d = id.to_string();
                                        if ["Clone", "Copy", "Debug", "Default", "PartialEq", "Eq"].contains(&d.as_str()) {
                                            keep.push(d);
                                        }
                                    }
                                    Ok(())
                                });
                            }
                        }
                        if !keep.is_empty() {
                            fc.edit_ord(r.0, r.0, format!("#[derive({})]\n", keep.join(", ")), "R1.attr.derive_kept", -25);
                        }
                    }
                    // nested attrs (fields / variants) + paths
                    struct ItemV<'x, 'y, 'z> {
                        bv: BodyV<'x, 'y>,
                        _p: std::marker::PhantomData<&'z ()>,
                    }
                    let nested_empty = HashMap::new();
                    let mut bv = BodyV {
                        fc: &mut fc,
                        world: "none".into(),
                        unit: None,
                        loop_no: 0,
                        closure_no: 0,
                        in_opaque_ctx: 0,
                        asref_params: HashMap::new(),
                        nested_units: &nested_empty,
                        outer_name: name.clone(),
                        used_loops: HashSet::new(),
                        used_closures: HashSet::new(),
                        used_text_closures: HashSet::new(),
                        closure_ctx: Vec::new(),
                        closure_rewritten: false,
                        closure_depth: 0,
                        awaited_call: false,
                        call_counts: HashMap::new(),
                        calls_seen: Vec::new(),
                        claimed_hints: HashSet::new(),
                        closure_counts: HashMap::new(),
                        ret_norm: String::new(), tail_call: vec![], try_operand: None, closure_tail: None, asref_idents: HashSet::new(),
                    };
                    match item {
                        Item::Struct(s) => make_pub(bv.fc, &s.vis, br(s.struct_token.span()).0),
                        Item::Enum(e) => make_pub(bv.fc, &e.vis, br(e.enum_token.span()).0),
                        Item::Const(c) => make_pub(bv.fc, &c.vis, br(c.const_token.span()).0),
                        Item::Static(c) => {
                            make_pub(bv.fc, &c.vis, br(c.static_token.span()).0);
                            let at = br(c.static_token.span()).0;
                            bv.fc.edit_ord(at, at, "exec ", "R16.static", -1);
                        }
                        Item::Type(t) => make_pub(bv.fc, &t.vis, br(t.type_token.span()).0),
                        _ => {}
                    }
                    match item {
                        Item::Struct(s) => {
                            for f in s.fields.iter() {
                                bv.fc.strip_attrs(&f.attrs);
                                bv.visit_type(&f.ty);
                                // R1.vis: private fields become pub so that contracts (spec
                                // functions) can mention them from other modules
                                if let Some(id) = &f.ident {
                                    let (a, _) = br(id.span());
                                    make_pub(bv.fc, &f.vis, a);
                                } else {
                                    let a = range_of(&f.ty).0;
                                    make_pub(bv.fc, &f.vis, a);
                                }
                            }
                            // make fields and the struct pub? visibility kept as is (same module tree)
                        }
                        Item::Enum(en) => {
                            for v in en.variants.iter() {
                                bv.fc.strip_attrs(&v.attrs);
                                for f in v.fields.iter() {
                                    bv.fc.strip_attrs(&f.attrs);
                                    bv.visit_type(&f.ty);
                                }
                            }
                        }
                        Item::Const(c) => {
                            // R16: Verus lowers a const to a function; an elided lifetime in
                            // its type must be written out (`&str` -> `&'static str`)
                            if let Type::Reference(tr) = &*c.ty {
                                if tr.lifetime.is_none() {
                                    let (_, e) = br(tr.and_token.span());
                                    bv.fc.edit_ord(e, e, "'static ", "R16.const_lifetime", -2);
                                }
                            }
                            bv.visit_type(&c.ty);
                            bv.visit_expr(&c.expr);
                        }
                        Item::Type(t) => {
                            bv.visit_type(&t.ty);
                        }
                        Item::Static(c) => {
                            bv.visit_type(&c.ty);
                            bv.visit_expr(&c.expr);
                        }
                        _ => {}
                    }
                    let _ = std::marker::PhantomData::<ItemV>;
                    if let Some(extra) = item_extra.get(&name) {
                        fc.edit_ord(r.1, r.1, format!("\n{}\n", extra), "W.item_extra", 20);
                    }
                    segs.push((r.0, r.1, "item".into(), name.clone()));
                }
                Item::Trait(t) => {
                    if !keep_items.contains(&name) {
                        dropped.push(format!("trait {name}"));
                        continue;
                    }
                    found_items.insert(name.clone());
                    fc.strip_attrs(attrs);
                    let open = br(t.brace_token.span.open()).1;
                    if let Some(extra) = item_extra.get(&name) {
                        fc.edit_ord(open, open, format!("\n{}\n", extra), "W.item_extra", 20);
                    }
                    for ti in &t.items {
                        if let TraitItem::Fn(f) = ti {
                            let at = format!("trait:{}/{}", name, f.sig.ident);
                            let u = units.get(&at).cloned().unwrap_or_else(|| {
                                let mut u = UnitCfg::default();
                                u.id = at.clone();
                                u.world = "none".into();
                                u
                            });
                            if units.contains_key(&at) {
                                found_units.insert(at.clone());
                            }
                            process_fn(&mut fc, &f.attrs, &Visibility::Inherited, &f.sig, f.default.as_ref(), &u, &nested, &f.sig.ident.to_string(), true);
                        }
                    }
                    segs.push((r.0, r.1, "trait".into(), name.clone()));
                }
                Item::Fn(f) => {
                    let at = format!("fn:{}", name);
                    if let Some(u) = units.get(&at).cloned() {
                        found_units.insert(at.clone());
                        // which nested units were found
                        for s in &f.block.stmts {
                            if let Stmt::Item(Item::Fn(nf)) = s {
                                let k = format!("fn:{}/{}", name, nf.sig.ident);
                                if units.contains_key(&k) {
                                    found_units.insert(k);
                                }
                            }
                        }
                        process_fn(&mut fc, &f.attrs, &f.vis, &f.sig, Some(&f.block), &u, &nested, &name, false);
                        make_pub(&mut fc, &f.vis, range_of(&f.sig).0);
                        segs.push((r.0, r.1, "fn".into(), u.id.clone()));
                    } else {
                        dropped.push(format!("fn {name}"));
                    }
                }
                Item::Impl(im) => {
                    let key = impl_key(im);
                    // any method units?
                    let mut kept_methods = vec![];
                    for ii in &im.items {
                        if let ImplItem::Fn(m) = ii {
                            match cfg.env.attrs_on(&m.attrs) {
                                Ok(true) => {}
                                _ => continue,
                            }
                            let at = format!("impl:{}/{}", key, m.sig.ident);
                            if units.contains_key(&at) {
                                kept_methods.push((m, at));
                            } else {
                                dropped.push(format!("method {key}::{}", m.sig.ident));
                            }
                        }
                    }
                    let impl_extra = item_extra.get(&format!("impl:{key}"));
                    if kept_methods.is_empty() && impl_extra.is_none() {
                        dropped.push(format!("impl {key}"));
                        continue;
                    }
                    fc.strip_attrs(attrs);
                    let open = br(im.brace_token.span.open());
                    let close = br(im.brace_token.span.close());
                    // header
                    let inherent = kept_methods.iter().any(|(_, at)| units[at].inherent);
                    if inherent {
                        // R13: trait impl -> inherent impl: `impl Trait for X` -> `impl X`
                        if let Some((_, p, for_tok)) = &im.trait_ {
                            let pr = range_of(p);
                            let fr = br(for_tok.span());
                            let mut e = fr.1;
                            if src.as_bytes().get(e) == Some(&b' ') {
                                e += 1;
                            }
                            fc.edit(pr.0, e, "", "R13.inherent");
                        }
                    } else if let Some((_, p, _)) = &im.trait_ {
                        // R1 on the trait path
                        if p.leading_colon.is_none() && cfg.roots.contains(&p.segments[0].ident.to_string()) && p.segments.len() >= 2 {
                            let (a, _) = br(p.segments[0].ident.span());
                            fc.edit_ord(a, a, "crate::shims::", "R1.path", -5);
                        }
                    }
                    {
                        // self type + generics paths
                        let nested_empty = HashMap::new();
                        let mut bv = BodyV {
                            fc: &mut fc,
                            world: "none".into(),
                            unit: None,
                            loop_no: 0,
                            closure_no: 0,
                            in_opaque_ctx: 0,
                            asref_params: HashMap::new(),
                            nested_units: &nested_empty,
                            outer_name: key.clone(),
                            used_loops: HashSet::new(),
                            used_closures: HashSet::new(),
                        used_text_closures: HashSet::new(),
                        closure_ctx: Vec::new(),
                        closure_rewritten: false,
                        closure_depth: 0,
                        awaited_call: false,
                        call_counts: HashMap::new(),
                        calls_seen: Vec::new(),
                        claimed_hints: HashSet::new(),
                        closure_counts: HashMap::new(),
                        ret_norm: String::new(), tail_call: vec![], try_operand: None, closure_tail: None, asref_idents: HashSet::new(),
                        };
                        bv.visit_type(&im.self_ty);
                        if !inherent {
                            if let Some((_, p, _)) = &im.trait_ {
                                for seg in p.segments.iter() {
                                    bv.visit_path_arguments(&seg.arguments);
                                }
                            }
                        }
                    }
                    segs.push((r.0, open.1, "impl_head".into(), key.clone()));
                    if let Some(extra) = impl_extra {
                        fc.edit_ord(open.1, open.1, format!("\n{}\n", extra), "W.item_extra", 20);
                    }
                    for (m, at) in kept_methods {
                        found_units.insert(at.clone());
                        let u = units[&at].clone();
                        for s in &m.block.stmts {
                            if let Stmt::Item(Item::Fn(nf)) = s {
                                let k = format!("{}/{}/{}", at, "", nf.sig.ident).replace("//", "/");
                                if units.contains_key(&k) {
                                    found_units.insert(k);
                                }
                            }
                        }
                        let vis = if inherent { m.vis.clone() } else { m.vis.clone() };
                        process_fn(&mut fc, &m.attrs, &vis, &m.sig, Some(&m.block), &u, &nested, &format!("{}/{}", key, m.sig.ident), false);
                        if inherent || im.trait_.is_none() {
                            let s = range_of(&m.sig).0;
                            make_pub(&mut fc, &m.vis, s);
                        }
                        let mr = range_of(m);
                        segs.push((mr.0, mr.1, "method".into(), u.id.clone()));
                    }
                    segs.push((close.0, close.1, "impl_tail".into(), key.clone()));
                }
                Item::Mod(_) => {
                    dropped.push(format!("mod {name}"));
                }
                _ => {
                    dropped.push(format!("{name}"));
                }
            }
        }
        // missing anchors
        let mut missing_units: Vec<String> = vec![];
        for (at, u) in units.iter() {
            if !found_units.contains(at) && !u.id.starts_with("auto:") {
                // the function no longer exists (renamed, inlined, removed): its contract cannot be
                // checked; callers are verified without it
                fc.degraded.push(format!("{fname}: unit `{at}` ({}) not found: its contract is not checked in this run", u.id));
                missing_units.push(u.id.clone());
            }
        }
        for k in &keep_items {
            if !found_items.contains(k) && !cfg_off_items.contains(k) {
                fc.errors.push(format!("{fname}: item `{k}` not found (anchor lost)"));
            }
        }
        // render
        let mut rendered = vec![];
        let mut errs = vec![];
        for (a, b, kind, name) in &segs {
            let (txt, log) = apply_edits(&src, (*a, *b), &fc.edits, &mut errs);
            rendered.push(json!({
                "kind": kind, "name": name,
                "src_start_line": lift_ranges.iter().find(|r| r.0 <= *a && *a < r.1).map(|r| r.2).unwrap_or_else(|| line_of(&src, *a)),
                "src_end_line": lift_ranges.iter().find(|r| r.0 <= *a && *a < r.1).map(|r| r.3).unwrap_or_else(|| line_of(&src, *b)),
                "orig": &src[*a..*b], "text": txt, "edits": log,
            }));
        }
        for (k, v) in &fc.rule_counts {
            if k.starts_with("hint:") {
                continue;
            }
            *total_rules.entry(k.clone()).or_insert(0) += v;
        }
        all_errors.extend(fc.errors.iter().cloned());
        all_errors.extend(errs);
        out_files.insert(
            fname.clone(),
            json!({ "segments": rendered, "dropped": dropped, "warnings": fc.warnings, "degraded": fc.degraded,
                    "auto_units": auto_names, "auto_items": auto_items, "ro_violations": fc.ro_violations, "missing_units": missing_units, "lifted": lift_log, "lift_missing": lift_missing, "locals": fc.locals_out, "inlined_helpers": inlined_helpers, "private_units": fc.private_units, "auto_effects": extra_eff, "taints": fc.taints, "rebound": rebound }),
        );
    }
    let out = json!({ "files": out_files, "errors": all_errors, "rule_counts": total_rules });
    std::fs::write(&args[2], serde_json::to_string_pretty(&out).unwrap()).unwrap();
    if !all_errors.is_empty() {
        for e in &all_errors {
            eprintln!("extractor: {e}");
        }
        std::process::exit(3);
    }
}
