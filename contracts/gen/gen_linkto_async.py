#!/usr/bin/env python3
"""adds the async twins to contracts/linkto.vc (idempotent: works from linkto_sync.vc)"""
import os
import re

HERE = os.path.dirname(os.path.dirname(os.path.abspath(__file__)))
src = os.path.join(HERE, 'linkto_sync.vc.in')
if not os.path.exists(src):
    # first run: the hand-written sync file becomes the input
    os.rename(os.path.join(HERE, 'linkto.vc'), src)
s = open(src).read()

sl_extra = re.search(r"    /// a streaming linker:.*?\n(?=\nunit linkto::filesize)", s, re.S).group(0)
al_extra = (sl_extra.replace('SyncToLinker', 'ToLinker').replace('sl_wf', 'al_wf').replace('sl_digest', 'al_digest')
            .replace('crate::content::linkto::linker_wf', 'crate::content::linkto::alinker_wf'))
chk = re.search(r"    pub open spec fn sl_checks_hold.*?\n    }\n", s, re.S).group(0)
al_chk = chk.replace('SyncToLinker', 'ToLinker').replace('sl_', 'al_')
s = s.replace("  keep BUF_SIZE PROBE_SIZE SyncToLinker\n", "  keep BUF_SIZE PROBE_SIZE SyncToLinker ToLinker\n")

READ_SHIM = """    /// ASSUMED (AsyncReadExt::read after R2): drives `ToLinker::poll_read` (a verified unit) to
    /// completion and returns its Ready value
    impl crate::shims::futures::io::AsyncReadExt for ToLinker {
        #[verifier::external_body]
        fn read(&mut self, buf: &mut [u8]) -> (r: crate::shims::std::io::Result<usize>)
            ensures
                al_wf(*old(self)) ==> al_wf(*final(self)),
                final(self).linker.fd@.content == old(self).linker.fd@.content, final(self).linker.builder@.algos == old(self).linker.builder@.algos,
                final(self).linker.target == old(self).linker.target, final(self).cache == old(self).cache, final(self).key == old(self).key, final(self).opts == old(self).opts,
                final(buf)@.len() == old(buf)@.len(),
                r is Ok ==> r->Ok_0 <= old(buf)@.len() && final(self).linker.fd@.pos == old(self).linker.fd@.pos + r->Ok_0,
                r is Ok && r->Ok_0 == 0 && old(buf)@.len() > 0 ==> final(self).linker.fd@.pos == final(self).linker.fd@.content.len(),
        { unimplemented!() }
    }
"""
s = s.replace("\nunit linkto::filesize", "\nfile linkto.rs\n  extra\n" + al_extra + al_chk + READ_SHIM + "\nunit linkto::filesize", 1)

SUB = ('SyncToLinker=>ToLinker ; sl_=>al_ ; crate::content::linkto::linker_wf=>crate::content::linkto::alinker_wf ; '
       'link_to_hash_sync=>link_to_hash ; link_to_sync=>link_to')


def twin(unit_id, at, tid):
    global s
    marker = f'unit {unit_id}\n  file linkto.rs\n'
    i = s.index(marker)
    j = s.index('\n', i + len(marker))
    s = s[:j] + f'\n  twin {at} | {tid} | {SUB}' + s[j:]


twin('linkto::SyncToLinker::context_read', 'impl:ToLinker/context_read', 'linkto::ToLinker::context_read')
twin('linkto::SyncToLinker::consume', 'impl:ToLinker/consume', 'linkto::ToLinker::consume')
twin('linkto::SyncToLinker::commit', 'impl:ToLinker/commit', 'linkto::ToLinker::commit')
twin('linkto::WriteOpts::link_to_sync::inner', 'impl:WriteOpts/link_to/inner', 'linkto::WriteOpts::link_to::inner')
twin('linkto::WriteOpts::link_to_sync', 'impl:WriteOpts/link_to', 'linkto::WriteOpts::link_to')
twin('linkto::WriteOpts::link_to_hash_sync::inner', 'impl:WriteOpts/link_to_hash/inner', 'linkto::WriteOpts::link_to_hash::inner')
twin('linkto::WriteOpts::link_to_hash_sync', 'impl:WriteOpts/link_to_hash', 'linkto::WriteOpts::link_to_hash')
twin('linkto::link_to_sync', 'fn:link_to', 'linkto::link_to')
twin('linkto::link_to_hash_sync', 'fn:link_to_hash', 'linkto::link_to_hash')
s = s.replace("  twin impl:SyncToLinker/open | linkto::SyncToLinker::open |\n",
              "  twin impl:SyncToLinker/open | linkto::SyncToLinker::open |\n"
              f"  twin impl:ToLinker/open/inner | linkto::ToLinker::open::inner | {SUB}\n"
              f"  twin impl:ToLinker/open | linkto::ToLinker::open | {SUB}\n")
s = s.replace("  twin impl:SyncToLinker/open_hash | linkto::SyncToLinker::open_hash |\n",
              "  twin impl:SyncToLinker/open_hash | linkto::SyncToLinker::open_hash |\n"
              f"  twin impl:ToLinker/open_hash/inner | linkto::ToLinker::open_hash::inner | {SUB}\n"
              f"  twin impl:ToLinker/open_hash | linkto::ToLinker::open_hash | {SUB}\n")
s += """
unit linkto::ToLinker::poll_read
  file linkto.rs
  flavours linkto
  at impl:AsyncRead for ToLinker/poll_read
  inherent
  ret r
  props C19 C12 C20
  requires
    al_wf(*old(self))
  ensures [C19.ToLinker.poll_read.counts_what_it_hands_out]
    al_wf(*final(self)) && final(self).linker.fd@.content == old(self).linker.fd@.content && final(self).linker.builder@.algos == old(self).linker.builder@.algos
      && final(self).linker.target == old(self).linker.target && final(self).cache == old(self).cache && final(self).key == old(self).key && final(self).opts == old(self).opts
  ensures [C19.ToLinker.poll_read.bytes]
    r is Ready && r->Ready_0 is Ok ==> r->Ready_0->Ok_0 <= old(buf)@.len() && final(self).linker.fd@.pos == old(self).linker.fd@.pos + r->Ready_0->Ok_0
  ensures [C19.ToLinker.poll_read.eof]
    r is Ready && r->Ready_0 is Ok && r->Ready_0->Ok_0 == 0 && old(buf)@.len() > 0 ==> final(self).linker.fd@.pos == final(self).linker.fd@.content.len()

unit linkto::ToLinker::poll_read#tokio
  file linkto.rs
  flavours tokio
  at impl:AsyncRead for ToLinker/poll_read
  inherent
  ret r
  props C19 C12 C20
  requires
    al_wf(*old(self))
  ensures [C19.ToLinker.poll_read.counts_what_it_hands_out]
    al_wf(*final(self)) && final(self).linker.fd@.content == old(self).linker.fd@.content && final(self).linker.builder@.algos == old(self).linker.builder@.algos
      && final(self).linker.target == old(self).linker.target && final(self).cache == old(self).cache && final(self).key == old(self).key && final(self).opts == old(self).opts
  ensures [C19.ToLinker.poll_read.bytes]
    r is Ready && r->Ready_0 is Ok ==> old(self).linker.fd@.pos <= final(self).linker.fd@.pos
      && final(buf)@.filled == old(buf)@.filled + old(self).linker.fd@.content.subrange(old(self).linker.fd@.pos, final(self).linker.fd@.pos)
  ensures [C19.ToLinker.poll_read.eof]
    r is Ready && r->Ready_0 is Ok && final(self).linker.fd@.pos == old(self).linker.fd@.pos && old(buf)@.cap > old(buf)@.filled.len() ==> final(self).linker.fd@.pos == final(self).linker.fd@.content.len()
"""
open(os.path.join(HERE, 'linkto.vc'), 'w').write(s)
print('wrote linkto.vc')
