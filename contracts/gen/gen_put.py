#!/usr/bin/env python3
"""appends the generated part of contracts/put.vc (open*, create*, one-shot writers)"""
import os
HERE = os.path.dirname(os.path.dirname(os.path.abspath(__file__)))
out = []
P = out.append

def open_unit(uid, at, keyed, opts_expr, algo_expr, size_expr):
    P(f'unit {uid}')
    P('  file put.rs')
    P(f'  at {at}')
    P('  world mut')
    P('  ret r')
    P('  props C02 C03 C08 C13 C14 C15 C16 C20')
    P('  requires')
    P('    world_wf(*old(w))')
    P(f'  ensures [C02+C16.{uid.split("::",1)[1]}.fresh_writer]')
    P(f'    r is Ok ==> crate::content::write::writer_wf(r->Ok_0.writer, *final(w)) && r->Ok_0.writer.cache@ == cache@ && r->Ok_0.cache@ == cache@')
    P(f'      && r->Ok_0.written == 0 && r->Ok_0.writer.builder@.fed == Seq::<u8>::empty()')
    P(f'      && r->Ok_0.writer.builder@.algos == seq![{algo_expr}]')
    P(f'      && r->Ok_0.opts == {opts_expr} && r->Ok_0.key' + (' is Some && r->Ok_0.key->Some_0@ == key@' if keyed else ' is None'))
    P(f'      && !exists_at(old(w).fs, r->Ok_0.writer.tmpfile@)')
    P(f'  ensures [C03+C14+C15.{uid.split("::",1)[1]}.only_tmp_area]')
    P('    only_under(*old(w), *final(w), tmp_dir(cache@)) && world_wf(*final(w))')
    P(f'  ensures [C13.{uid.split("::",1)[1]}.err_kind]')
    P('    r is Err ==> r->Err_0 is IoError')
    P(f'  ensures [C02.{uid.split("::",1)[1]}.complete]')
    P('    old(w).healthy && !crate::shims::std::fs::exists_file_on_path(old(w).fs, tmp_dir(cache@)) ==> r is Ok')
    P('')

ALGO_ME = '(match me.algorithm { Some(a) => a@, None => AlgoV::Sha256 })'
ALGO_SELF = '(match self.algorithm { Some(a) => a@, None => AlgoV::Sha256 })'
open_unit('put::WriteOpts::open_sync::inner', 'impl:WriteOpts/open_sync/inner', True, 'me', ALGO_ME, 'me.size')
open_unit('put::WriteOpts::open_sync', 'impl:WriteOpts/open_sync', True, 'self', ALGO_SELF, 'self.size')
open_unit('put::WriteOpts::open_hash_sync::inner', 'impl:WriteOpts/open_hash_sync/inner', False, 'me', ALGO_ME, 'me.size')
open_unit('put::WriteOpts::open_hash_sync', 'impl:WriteOpts/open_hash_sync', False, 'self', ALGO_SELF, 'self.size')
NEWOPTS = lambda a: f'(WriteOpts {{ algorithm: Some({a}), sri: None, size: None, time: None, metadata: None, raw_metadata: None }})'
open_unit('put::SyncWriter::create::inner', 'impl:SyncWriter/create/inner', True, NEWOPTS('crate::shims::ssri::Algorithm::Sha256'), 'AlgoV::Sha256', None)
open_unit('put::SyncWriter::create', 'impl:SyncWriter/create', True, NEWOPTS('crate::shims::ssri::Algorithm::Sha256'), 'AlgoV::Sha256', None)
open_unit('put::SyncWriter::create_with_algo::inner', 'impl:SyncWriter/create_with_algo/inner', True, NEWOPTS('algo'), 'algo@', None)
open_unit('put::SyncWriter::create_with_algo', 'impl:SyncWriter/create_with_algo', True, NEWOPTS('algo'), 'algo@', None)

open(os.path.join(HERE, 'put_gen.vc'), 'w').write('\n'.join(out) + '\n')
print('wrote put_gen.vc')
