#!/usr/bin/env python3
"""appends the generated part of contracts/put.vc (open*, create*, one-shot writers)"""
import os
HERE = os.path.dirname(os.path.dirname(os.path.abspath(__file__)))
out = []
P = out.append

def open_unit(uid, at, keyed, opts_expr, algo_expr, size_expr):
    P(f'unit {uid}')
    P('  file put.rs')
    P(f'  at {at}')
    P('  world mut')
    P('  ret r')
    P('  props C02 C03 C08 C13 C14 C15 C16 C20')
    P('  requires')
    P('    world_wf(*old(w))')
    P(f'  ensures [C02+C16.{uid.split("::",1)[1]}.fresh_writer]')
    P(f'    r is Ok ==> crate::content::write::writer_wf(r->Ok_0.writer, *final(w)) && r->Ok_0.writer.cache@ == cache@ && r->Ok_0.cache@ == cache@')
    P(f'      && r->Ok_0.written == 0 && r->Ok_0.writer.builder@.fed == Seq::<u8>::empty()')
    P(f'      && r->Ok_0.writer.builder@.algos == seq![{algo_expr}]')
    P(f'      && r->Ok_0.opts == {opts_expr} && r->Ok_0.key' + (' is Some && r->Ok_0.key->Some_0@ == key@' if keyed else ' is None'))
    P(f'      && !exists_at(old(w).fs, r->Ok_0.writer.tmpfile@)')
    P(f'  ensures [C03+C14+C15.{uid.split("::",1)[1]}.only_tmp_area]')
    P('    only_under(*old(w), *final(w), tmp_dir(cache@)) && world_wf(*final(w))')
    P(f'  ensures [C15.{uid.split("::",1)[1]}.dirs]')
    P('    forall|d: PathV| #[trigger] final(w).fs.dirs.contains(d) && !old(w).fs.dirs.contains(d) ==> under(tmp_dir(cache@), d)')
    P(f'  ensures [C13.{uid.split("::",1)[1]}.err_kind]')
    P('    r is Err ==> r->Err_0 is IoError')
    P(f'  ensures [C02.{uid.split("::",1)[1]}.complete]')
    P('    old(w).healthy && !crate::shims::std::fs::exists_file_on_path(old(w).fs, tmp_dir(cache@)) ==> r is Ok')
    P('')

ALGO_ME = '(match me.algorithm { Some(a) => a@, None => AlgoV::Sha256 })'
ALGO_SELF = '(match self.algorithm { Some(a) => a@, None => AlgoV::Sha256 })'
open_unit('put::WriteOpts::open_sync::inner', 'impl:WriteOpts/open_sync/inner', True, 'me', ALGO_ME, 'me.size')
open_unit('put::WriteOpts::open_sync', 'impl:WriteOpts/open_sync', True, 'self', ALGO_SELF, 'self.size')
open_unit('put::WriteOpts::open_hash_sync::inner', 'impl:WriteOpts/open_hash_sync/inner', False, 'me', ALGO_ME, 'me.size')
open_unit('put::WriteOpts::open_hash_sync', 'impl:WriteOpts/open_hash_sync', False, 'self', ALGO_SELF, 'self.size')
NEWOPTS = lambda a: f'(WriteOpts {{ algorithm: Some({a}), sri: None, size: None, time: None, metadata: None, raw_metadata: None }})'
open_unit('put::SyncWriter::create::inner', 'impl:SyncWriter/create/inner', True, NEWOPTS('crate::shims::ssri::Algorithm::Sha256'), 'AlgoV::Sha256', None)
open_unit('put::SyncWriter::create', 'impl:SyncWriter/create', True, NEWOPTS('crate::shims::ssri::Algorithm::Sha256'), 'AlgoV::Sha256', None)
open_unit('put::SyncWriter::create_with_algo::inner', 'impl:SyncWriter/create_with_algo/inner', True, NEWOPTS('algo'), 'algo@', None)
open_unit('put::SyncWriter::create_with_algo', 'impl:SyncWriter/create_with_algo', True, NEWOPTS('algo'), 'algo@', None)

open(os.path.join(HERE, 'put_gen.vc'), 'w').write('\n'.join(out) + '\n')
print('wrote put_gen.vc')

# ---- one-shot writers --------------------------------------------------------------------
out = []
P = out.append
def oneshot(uid, at, keyed, algo):
    n = uid.split('::', 1)[1]
    BP = 'bucket_path_spec(cache@, key@)'
    G = f'!old(w).fs.links.contains_key({BP})' if keyed else 'true'
    D = f'digest_of({algo}, data@)'
    CP = f'content_path_spec(cache@, {D})'
    P(f'unit {uid}')
    P('  file put.rs')
    P(f'  at {at}')
    P('  world mut')
    P('  ret r')
    P('  props C02 C03 C04 C11 C13 C14 C15 C16 C20')
    P('  requires')
    P('    world_wf(*old(w))')
    P(f'  ensures [C02+C16.{n}.returns_the_true_digest]')
    P(f'    r is Ok ==> r->Ok_0@ == {D}')
    P(f'  ensures [C03.{n}.content_ok_in_every_state]')
    P(f'    content_ok(old(w).fs, cache@) && {G} ==> content_ok(final(w).fs, cache@)')
    P(f'      && forall|i: int| old(w).hist.len() <= i < final(w).hist.len() ==> content_ok(#[trigger] final(w).hist[i], cache@)')
    P(f'  ensures [C15.{n}.nothing_outside_the_cache]')
    P(f'    {G} ==> files_same_outside(old(w).fs, final(w).fs, cache@)')
    P(f'      && forall|i: int| old(w).hist.len() <= i < final(w).hist.len() ==> files_same_outside(old(w).fs, #[trigger] final(w).hist[i], cache@)')
    P(f'  ensures [C02+C13.{n}.ok_means_content_stored]')
    P(f'    r is Ok && {G} ==> readable(final(w).fs, {CP}) || final(w).fs.dirs.contains(resolve(final(w).fs, {CP}))')
    P(f'  ensures [C02.{n}.healthy_stores_exact_bytes]')
    P(f'    old(w).healthy && r is Ok && {G} && !old(w).fs.dirs.contains({CP}) ==> final(w).fs.files.contains_key({CP}) && final(w).fs.files[{CP}] == data@ && !final(w).fs.links.contains_key({CP})')
    if keyed:
        P(f'  ensures [C02+C04+C05+C11.{n}.ok_appends_the_record]')
        P(f'    r is Ok && {G} ==> exists|m: crate::index::MetaV| #![trigger crate::index::json_of_v(m)]')
        P(f'        m.key == key@ && m.integrity == Some(sri_string({D})) && m.size == data@.len() && crate::index::is_clock_millis(m.time)')
        P(f'        && m.metadata == crate::shims::serde_json::Value::Null && m.raw_metadata is None')
        P(f'        && final(w).fs.files.contains_key({BP})')
        P(f'        && final(w).fs.files[{BP}] == crate::index::bucket_bytes(old(w).fs, {BP}) + record_bytes(crate::index::json_of_v(m))')
    else:
        P(f'  ensures [C14.{n}.index_untouched]')
        P(f'    same_under(old(w).fs, final(w).fs, index_dir(cache@))')
        P(f'      && forall|i: int| old(w).hist.len() <= i < final(w).hist.len() ==> same_under(old(w).fs, #[trigger] final(w).hist[i], index_dir(cache@))')
    P(f'  ensures [C03.{n}.world]')
    P('    hist_ext(*old(w), *final(w)) && world_wf(*final(w)) && final(w).healthy == old(w).healthy')
    if at.endswith('/inner'):
        P('  body_open')
        P('    proof { lemma_cache_areas_disjoint(cache@); lemma_tmp_states(cache@); lemma_content_path_rel(cache@, ' + D + ');' + (' lemma_bucket_in_index(cache@, key@);' if keyed else '') + ' }')
    P('')

oneshot('put::write_sync_with_algo::inner', 'fn:write_sync_with_algo/inner', True, 'algo@')
oneshot('put::write_sync_with_algo', 'fn:write_sync_with_algo', True, 'algo@')
oneshot('put::write_sync', 'fn:write_sync', True, 'AlgoV::Sha256')
oneshot('put::write_hash_sync_with_algo::inner', 'fn:write_hash_sync_with_algo/inner', False, 'algo@')
oneshot('put::write_hash_sync_with_algo', 'fn:write_hash_sync_with_algo', False, 'algo@')
oneshot('put::write_hash_sync', 'fn:write_hash_sync', False, 'AlgoV::Sha256')
open(os.path.join(HERE, 'put_gen2.vc'), 'w').write('\n'.join(out) + '\n')
print('wrote put_gen2.vc')
