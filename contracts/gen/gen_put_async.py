#!/usr/bin/env python3
"""contracts/put_async.vc = the sync put.rs contracts transformed textually for the async
twins (put::Writer, open/open_hash, write*, write_hash*): C12 — one contract, two units."""
import os, re
HERE = os.path.dirname(os.path.dirname(os.path.abspath(__file__)))
src = open(os.path.join(HERE, 'put.vc')).read() + '\n' + open(os.path.join(HERE, 'put_gen.vc')).read() + '\n' + open(os.path.join(HERE, 'put_gen2.vc')).read()

# split into top-level blocks
blocks = re.split(r'\n(?=unit |file )', src)
SUB = [
    ('crate::content::write::writer_wf(', 'crate::content::write::aw_wf('),
    ('crate::content::write::writer_step(', 'crate::content::write::aw_step('),
    ('.writer.builder@.fed', '.writer@.fed'), ('.writer.builder@.algos', '.writer@.algos'),
    ('.writer.cache@', '.writer@.cache'), ('.writer.tmpfile@', '.writer@.tmp'),
    ('sw_wf', 'asw_wf'), ('sw_algo', 'asw_algo'), ('sw_digest', 'asw_digest'), ('checks_hold', 'achecks_hold'),
    ('SyncWriter', 'Writer'),
]
NAMES = [
    ('open_hash_sync', 'open_hash'), ('open_sync', 'open'),
    ('write_hash_sync_with_algo', 'write_hash_with_algo'), ('write_hash_sync', 'write_hash'),
    ('write_sync_with_algo', 'write_with_algo'), ('write_sync', 'write'),
]
def tr(t):
    for a, b in SUB + NAMES:
        t = t.replace(a, b)
    return t

out = []
extra_done = False
for b in blocks:
    b = b.strip('\n')
    if b.startswith('file put.rs'):
        if extra_done:
            continue
        extra_done = True
        # duplicate the SyncWriter spec helpers for the async Writer
        m = re.search(r'    /// a streaming writer:.*?(?=\n  item_extra )', b, re.S)
        helpers = tr(m.group(0))
        mw = re.search(r'    pub open spec fn asw_wf\(s: Writer, w: World\) -> bool \{.*?\n    \}\n', helpers, re.S)
        mid = (mw.group(0).replace('asw_wf(s: Writer, w: World)', 'asw_mid(s: Writer, w: World, buf: Seq<u8>)')
               .replace('crate::content::write::aw_wf(s.writer, w)', 'crate::content::write::aw_mid(s.writer, w, buf)'))
        helpers += '    /// the same while a write of `buf` is in flight in the content writer\n' + mid
        out.append('file put.rs\n  keep Writer\n  extra\n' + helpers + '''
  item_extra impl:AsyncWrite for Writer
    open spec fn wr_inv(&self, w: World) -> bool { asw_wf(*self, w) }
    open spec fn wr_mid(&self, w: World, buf: Seq<u8>) -> bool { asw_mid(*self, w, buf) }
    open spec fn wr_sink(&self, w: World) -> Seq<u8> { self.writer@.fed }
    open spec fn wr_step(pre_s: Self, pre: World, post_s: Self, post: World) -> bool {
        &&& crate::content::write::aw_step(pre_s.writer, pre, post_s.writer, post)
        &&& post_s.cache@ == pre_s.cache@ && post_s.key == pre_s.key && post_s.opts == pre_s.opts
    }
    open spec fn wr_frame(pre_s: Self, pre: World, post: World) -> bool { crate::content::write::aw_frame(pre_s.writer@.tmp, pre, post) }
    proof fn wr_step_refl(s: Self, w: World) { }
    proof fn wr_step_trans(a: Self, wa: World, b: Self, wb: World, c: Self, wc: World) {
        assert forall|i: int| wa.hist.len() <= i < wc.hist.len() implies same_except(wa.fs, #[trigger] wc.hist[i], a.writer@.tmp) && wc.hist[i].dirs == wa.fs.dirs by {
            if i < wb.hist.len() { assert(wc.hist[i] == wb.hist[i]); }
        }
    }
''')
        continue
    if not b.startswith('unit '):
        continue
    head = b.split('\n', 1)[0]
    uid = head[5:].strip()
    if uid.startswith('put::WriteOpts::') and not ('open' in uid):
        continue        # setters are shared
    if uid == 'put::SyncWriter::create::inner':
        continue        # the async create has no inner fn
    if uid in ('put::SyncWriter::write', 'put::SyncWriter::flush'):
        continue        # poll_* below
    t = tr(b)
    t = t.replace('props ', 'props C12 ', 1)
    t = t.replace('  ensures [', '  ensures [C12+')
    # the async commit closes through the assumed AsyncWriter::close: same lemma, other view
    out.append(t)

out.append('''unit put::Writer::poll_write
  file put.rs
  at impl:AsyncWrite for Writer/poll_write
  world mut
  ret r
  props C02 C03 C08 C12 C13 C14 C20

unit put::Writer::poll_flush
  file put.rs
  at impl:AsyncWrite for Writer/poll_flush
  world mut
  ret r
  props C02 C03 C12 C13 C14 C20

unit put::Writer::poll_close
  file put.rs
  flavours default linkto
  at impl:AsyncWrite for Writer/poll_close
  world mut
  ret r
  props C12 C15 C20

unit put::Writer::poll_shutdown
  file put.rs
  flavours tokio
  at impl:AsyncWrite for Writer/poll_shutdown
  world mut
  ret r
  props C12 C15 C20
''')
open(os.path.join(HERE, 'put_async.vc'), 'w').write('\n\n'.join(out) + '\n')
print('wrote put_async.vc')
