#!/usr/bin/env python3
"""generates contracts/get.vc (sync part of src/get.rs): one contract per entry point,
from templates — run by hand when the templates change; the output is committed"""
import os
HERE = os.path.dirname(os.path.dirname(os.path.abspath(__file__)))
out = []
P = out.append

P('''file get.rs
  module get
  keep SyncReader
  extra
    /// the entry the index currently maps `key` to
    pub open spec fn entry_of(fs: Fs, cache: PathV, key: Seq<char>) -> Option<crate::index::Metadata> {
        crate::index::lookup(crate::index::parse_bucket(bytes_at(fs, bucket_path_spec(cache, key))), key)
    }
    /// the index bucket of `key` can be read without faults
    pub open spec fn index_ok(w: World, cache: PathV, key: Seq<char>) -> bool {
        w.healthy && readable(w.fs, bucket_path_spec(cache, key))
    }
    pub open spec fn cps(cache: PathV, m: crate::index::Metadata) -> PathV { content_path_spec(cache, m.integrity@) }
''')

# ---- by-address forwards: same contract as the content::read unit they must call ----------
def fwd(name, callee_kind, world, args, props):
    """callee_kind: read | copy | copy_unchecked | reflink | reflink_unchecked | hard_link | hard_link_unchecked"""
    P(f'unit get::{name}')
    P('  file get.rs')
    P(f'  at fn:{name}')
    P(f'  world {world}')
    P('  ret r')
    P(f'  props {props}')
    P('  requires [C20.integrity_wf]')
    P('    sri_wf(sri@)')
    C = 'content_path_spec(cache@, sri@)'
    checked = not callee_kind.endswith('_unchecked')
    base = callee_kind.replace('_unchecked', '')
    if base == 'read':
        P(f'  ensures [C01.{name}.ok_matches]')
        P(f'    r is Ok ==> sri_matches(sri@, r->Ok_0@)')
        P(f'  ensures [C01+C02.{name}.ok_is_stored_bytes]')
        P(f'    r is Ok ==> readable(w.fs, {C}) && r->Ok_0@ == bytes_at(w.fs, {C})')
        P(f'  ensures [C02.{name}.complete]')
        P(f'    w.healthy && readable(w.fs, {C}) && sri_matches(sri@, bytes_at(w.fs, {C})) ==> r is Ok')
        P(f'  ensures [C18.{name}.missing_is_io_error]')
        P(f'    !readable(w.fs, {C}) ==> r is Err && r->Err_0 is IoError')
    else:
        if checked:
            P(f'  ensures [C01.{name}.ok_matches]')
            P(f'    r is Ok ==> readable(old(w).fs, {C}) && sri_matches(sri@, bytes_at(old(w).fs, {C}))')
            P(f'  ensures [C18.{name}.failed_check_leaves_nothing]')
            P(f'    readable(old(w).fs, {C}) && !sri_matches(sri@, bytes_at(old(w).fs, {C})) ==> r is Err && final(w).fs == old(w).fs')
        if base == 'copy':
            P(f'  ensures [C18+C13.{name}.ok_dest]')
            P(f'    r is Ok ==> final(w).fs.files.contains_key(resolve(old(w).fs, to@)) && final(w).fs.files[resolve(old(w).fs, to@)] == bytes_at(old(w).fs, {C}) && r->Ok_0 == bytes_at(old(w).fs, {C}).len()')
            P(f'  ensures [C15.{name}.frame]')
            P(f'    same_except(old(w).fs, final(w).fs, resolve(old(w).fs, to@)) && final(w).fs.dirs == old(w).fs.dirs')
            P(f'  ensures [C18.{name}.missing_is_io_error]')
            P(f'    !readable(old(w).fs, {C}) ==> r is Err && r->Err_0 is IoError && final(w).fs == old(w).fs')
        elif base == 'reflink':
            P(f'  ensures [C18+C13.{name}.ok_dest]')
            P(f'    r is Ok ==> readable(old(w).fs, {C}) && final(w).fs == (Fs {{ files: old(w).fs.files.insert(to@, bytes_at(old(w).fs, {C})), ..old(w).fs }})')
            P(f'  ensures [C15+C18.{name}.err_nothing]')
            P(f'    r is Err ==> final(w).fs == old(w).fs')
        elif base == 'hard_link':
            P(f'  ensures [C18+C13.{name}.ok_dest]')
            P(f'    r is Ok ==> old(w).fs.files.contains_key({C}) && final(w).fs == (Fs {{ files: old(w).fs.files.insert(to@, old(w).fs.files[{C}]), ..old(w).fs }})')
            P(f'  ensures [C15+C18.{name}.err_nothing]')
            P(f'    r is Err ==> final(w).fs == old(w).fs')
        P(f'  ensures [C03.{name}.world]')
        P(f'    hist_ext(*old(w), *final(w)) && (world_wf(*old(w)) ==> world_wf(*final(w))) && final(w).healthy == old(w).healthy')
    P('')

fwd('read_hash_sync', 'read', 'ro', None, 'C01 C02 C15 C18 C20')
fwd('copy_hash_sync', 'copy', 'mut', None, 'C01 C15 C18 C20')
fwd('copy_hash_unchecked_sync', 'copy_unchecked', 'mut', None, 'C15 C18 C20')
fwd('reflink_hash_sync', 'reflink', 'mut', None, 'C01 C15 C18 C20')
fwd('reflink_hash_unchecked_sync', 'reflink_unchecked', 'mut', None, 'C15 C18 C20')
fwd('hard_link_hash_sync', 'hard_link', 'mut', None, 'C01 C15 C18 C20')
fwd('hard_link_hash_unchecked_sync', 'hard_link_unchecked', 'mut', None, 'C15 C18 C20')

# ---- by-key entry points: the by-address operation on exactly the address the index maps
# the key to, EntryNotFound when it maps it to nothing ------------------------------------
def keyed(name, kind, world, props):
    checked = not kind.endswith('_unchecked')
    base = kind.replace('_unchecked', '')
    for at, uid in ((f'fn:{name}/inner', f'get::{name}::inner'), (f'fn:{name}', f'get::{name}')):
        P(f'unit {uid}')
        P('  file get.rs')
        P(f'  at {at}')
        P(f'  world {world}')
        P('  ret r')
        P(f'  props {props}')
        W = 'w' if world == 'ro' else 'old(w)'
        E = f'entry_of({W}.fs, cache@, key@)'
        IOK = f'index_ok(*{W}, cache@, key@)'
        C = f'cps(cache@, {E}->Some_0)'
        P(f'  ensures [C18+C05.{name}.not_found]')
        P(f'    ({IOK} && {E} is None) || ({W}.healthy && !exists_at({W}.fs, bucket_path_spec(cache@, key@))) ==> r is Err && r->Err_0 is EntryNotFound' + ('' if world == 'ro' else ' && final(w).fs == old(w).fs'))
        if base == 'read':
            P(f'  ensures [C01.{name}.ok_matches_indexed_address]')
            P(f'    {IOK} && r is Ok ==> {E} is Some && sri_matches({E}->Some_0.integrity@, r->Ok_0@)')
            P(f'  ensures [C01+C02.{name}.ok_is_stored_bytes]')
            P(f'    {IOK} && r is Ok ==> readable(w.fs, {C}) && r->Ok_0@ == bytes_at(w.fs, {C})')
            P(f'  ensures [C02.{name}.complete]')
            P(f'    {IOK} && {E} is Some && readable(w.fs, {C}) && sri_matches({E}->Some_0.integrity@, bytes_at(w.fs, {C})) ==> r is Ok')
        else:
            if checked:
                P(f'  ensures [C01.{name}.ok_matches_indexed_address]')
                P(f'    {IOK} && r is Ok ==> {E} is Some && readable(old(w).fs, {C}) && sri_matches({E}->Some_0.integrity@, bytes_at(old(w).fs, {C}))')
                P(f'  ensures [C18.{name}.failed_check_leaves_nothing]')
                P(f'    {IOK} && {E} is Some && readable(old(w).fs, {C}) && !sri_matches({E}->Some_0.integrity@, bytes_at(old(w).fs, {C})) ==> r is Err && final(w).fs == old(w).fs')
            if base == 'copy':
                P(f'  ensures [C18+C13.{name}.ok_dest]')
                P(f'    {IOK} && r is Ok ==> {E} is Some && final(w).fs.files.contains_key(resolve(old(w).fs, to@)) && final(w).fs.files[resolve(old(w).fs, to@)] == bytes_at(old(w).fs, {C}) && r->Ok_0 == bytes_at(old(w).fs, {C}).len()')
                P(f'  ensures [C15.{name}.frame]')
                P(f'    same_except(old(w).fs, final(w).fs, resolve(old(w).fs, to@)) && final(w).fs.dirs == old(w).fs.dirs')
            elif base == 'reflink':
                P(f'  ensures [C18+C13.{name}.ok_dest]')
                P(f'    {IOK} && r is Ok ==> {E} is Some && final(w).fs == (Fs {{ files: old(w).fs.files.insert(to@, bytes_at(old(w).fs, {C})), ..old(w).fs }})')
                P(f'  ensures [C15+C18.{name}.err_nothing]')
                P(f'    r is Err ==> final(w).fs == old(w).fs')
            elif base == 'hard_link':
                P(f'  ensures [C18+C13.{name}.ok_dest]')
                P(f'    {IOK} && r is Ok ==> {E} is Some && old(w).fs.files.contains_key({C}) && final(w).fs == (Fs {{ files: old(w).fs.files.insert(to@, old(w).fs.files[{C}]), ..old(w).fs }})')
                P(f'  ensures [C15+C18.{name}.err_nothing]')
                P(f'    r is Err ==> final(w).fs == old(w).fs')
            P(f'  ensures [C03.{name}.world]')
            P(f'    hist_ext(*old(w), *final(w)) && (world_wf(*old(w)) ==> world_wf(*final(w))) && final(w).healthy == old(w).healthy')
        P('')

keyed('read_sync', 'read', 'ro', 'C01 C02 C05 C15 C18 C20')
keyed('copy_sync', 'copy', 'mut', 'C01 C05 C15 C18 C20')
keyed('copy_unchecked_sync', 'copy_unchecked', 'mut', 'C05 C15 C18 C20')
keyed('reflink_sync', 'reflink', 'mut', 'C01 C05 C15 C18 C20')
keyed('reflink_unchecked_sync', 'reflink_unchecked', 'mut', 'C05 C15 C18 C20')
keyed('hard_link_sync', 'hard_link', 'mut', 'C01 C05 C15 C18 C20')
keyed('hard_link_unchecked_sync', 'hard_link_unchecked', 'mut', 'C05 C15 C18 C20')

# ---- async twins (after R2 they have the shape of their _sync counterparts) --------------
fwd('read_hash', 'read', 'ro', None, 'C01 C02 C12 C15 C18 C20')
fwd('copy_hash', 'copy', 'mut', None, 'C01 C12 C15 C18 C20')
fwd('copy_hash_unchecked', 'copy_unchecked', 'mut', None, 'C12 C15 C18 C20')
fwd('reflink_hash', 'reflink', 'mut', None, 'C01 C12 C15 C18 C20')
keyed('read', 'read', 'ro', 'C01 C02 C05 C12 C15 C18 C20')
keyed('copy', 'copy', 'mut', 'C01 C05 C12 C15 C18 C20')
keyed('copy_unchecked', 'copy_unchecked', 'mut', 'C05 C12 C15 C18 C20')
keyed('reflink', 'reflink', 'mut', 'C01 C05 C12 C15 C18 C20')
keyed('reflink_unchecked', 'reflink_unchecked', 'mut', 'C05 C12 C15 C18 C20')
keyed('hard_link', 'hard_link', 'mut', 'C01 C05 C12 C15 C18 C20')

P('''unit get::metadata_sync
  file get.rs
  at fn:metadata_sync
  world ro
  ret r
  props C05 C09 C11 C15 C20
  ensures [C05+C11.metadata_sync.is_lookup]
    index_ok(*w, cache@, key@) ==> r is Ok && r->Ok_0 == entry_of(w.fs, cache@, key@)
  ensures [C05.metadata_sync.never_written_is_none]
    !exists_at(w.fs, bucket_path_spec(cache@, key@)) ==> r is Ok && r->Ok_0 is None

unit get::exists_sync
  file get.rs
  at fn:exists_sync
  world ro
  ret r
  props C09 C15 C20
  requires [C20.integrity_wf]
    sri_wf(sri@)
  ensures [C09.exists_sync.true_means_present]
    r ==> (w.fs.files.contains_key(resolve(w.fs, content_path_spec(cache@, sri@))) || w.fs.dirs.contains(resolve(w.fs, content_path_spec(cache@, sri@))))
  ensures [C09.exists_sync.complete]
    w.healthy && readable(w.fs, content_path_spec(cache@, sri@)) ==> r

unit get::SyncReader::read
  file get.rs
  at impl:Read for SyncReader/read
  inherent
  ret r
  props C01 C20
  requires
    crate::content::read::reader_wf(old(self).reader)
  ensures [C01.SyncReader.read.hands_out_what_it_hashes]
    crate::content::read::reader_wf(final(self).reader) && final(self).reader.fd@.content == old(self).reader.fd@.content
      && final(self).reader.checker@.sri == old(self).reader.checker@.sri
  ensures [C01.SyncReader.read.bytes]
    r is Ok ==> r->Ok_0 <= old(buf)@.len() && final(self).reader.fd@.pos == old(self).reader.fd@.pos + r->Ok_0
      && final(buf)@.subrange(0, r->Ok_0 as int) == old(self).reader.fd@.content.subrange(old(self).reader.fd@.pos, old(self).reader.fd@.pos + r->Ok_0)
  ensures [C01.SyncReader.read.eof]
    r is Ok && r->Ok_0 == 0 && old(buf)@.len() > 0 ==> final(self).reader.fd@.pos == final(self).reader.fd@.content.len()

unit get::SyncReader::check
  file get.rs
  at impl:SyncReader/check
  ret r
  props C01 C20
  ensures [C01.SyncReader.check.verdict]
    r is Ok <==> sri_matches(self.reader.checker@.sri, self.reader.checker@.fed)

unit get::SyncReader::open_hash
  file get.rs
  at impl:SyncReader/open_hash
  world ro
  ret r
  props C01 C15 C20
  requires [C20.integrity_wf]
    sri_wf(sri@)
  ensures [C01.SyncReader.open_hash.reader_on_content]
    r is Ok ==> crate::content::read::reader_for(r->Ok_0.reader, w.fs, cache@, sri@) && r->Ok_0.reader.fd@.pos == 0
  ensures [C18.SyncReader.open_hash.missing_is_io_error]
    r is Err ==> r->Err_0 is IoError

unit get::SyncReader::open::inner
  file get.rs
  at impl:SyncReader/open/inner
  world ro
  ret r
  props C01 C05 C15 C18 C20
  ensures [C18+C05.SyncReader.open.not_found]
    index_ok(*w, cache@, key@) && entry_of(w.fs, cache@, key@) is None ==> r is Err && r->Err_0 is EntryNotFound
  ensures [C01.SyncReader.open.reader_on_indexed_content]
    index_ok(*w, cache@, key@) && r is Ok ==> entry_of(w.fs, cache@, key@) is Some
      && crate::content::read::reader_for(r->Ok_0.reader, w.fs, cache@, entry_of(w.fs, cache@, key@)->Some_0.integrity@) && r->Ok_0.reader.fd@.pos == 0

unit get::SyncReader::open
  file get.rs
  at impl:SyncReader/open
  world ro
  ret r
  props C01 C05 C15 C18 C20
  ensures [C18+C05.SyncReader.open.not_found]
    index_ok(*w, cache@, key@) && entry_of(w.fs, cache@, key@) is None ==> r is Err && r->Err_0 is EntryNotFound
  ensures [C01.SyncReader.open.reader_on_indexed_content]
    index_ok(*w, cache@, key@) && r is Ok ==> entry_of(w.fs, cache@, key@) is Some
      && crate::content::read::reader_for(r->Ok_0.reader, w.fs, cache@, entry_of(w.fs, cache@, key@)->Some_0.integrity@) && r->Ok_0.reader.fd@.pos == 0
''')
s = '\n'.join(out) + '\n'

def twin(unit_id, at, tid, subs=''):
    global s
    marker = f'unit {unit_id}\n  file get.rs\n'
    i = s.index(marker)
    j = s.index('\n', i + len(marker))
    s = s[:j] + f'\n  twin {at} | {tid} | {subs}' + s[j:]

twin('get::metadata_sync', 'fn:metadata', 'get::metadata', 'metadata_sync=>metadata')
twin('get::exists_sync', 'fn:exists', 'get::exists', 'exists_sync=>exists')
R = 'crate::content::read::reader_wf=>crate::content::read::areader_wf ; crate::content::read::reader_for=>crate::content::read::areader_for ; SyncReader.=>Reader.'
twin('get::SyncReader::check', 'impl:Reader/check', 'get::Reader::check', R)
twin('get::SyncReader::open_hash', 'impl:Reader/open_hash', 'get::Reader::open_hash', R)
twin('get::SyncReader::open::inner', 'impl:Reader/open/inner', 'get::Reader::open::inner', R)
twin('get::SyncReader::open', 'impl:Reader/open', 'get::Reader::open', R)
s = s.replace('  keep SyncReader\n', '  keep SyncReader Reader\n')
s += '''
unit get::Reader::poll_read
  file get.rs
  flavours default linkto
  at impl:AsyncRead for Reader/poll_read
  inherent
  ret r
  props C01 C12 C20
  requires
    crate::content::read::areader_wf(old(self).reader)
  ensures [C01.Reader.poll_read.hands_out_what_it_hashes]
    crate::content::read::areader_wf(final(self).reader) && final(self).reader.fd@.content == old(self).reader.fd@.content
      && final(self).reader.checker@.sri == old(self).reader.checker@.sri
  ensures [C01.Reader.poll_read.bytes]
    r is Ready && r->Ready_0 is Ok ==> r->Ready_0->Ok_0 <= old(buf)@.len() && final(self).reader.fd@.pos == old(self).reader.fd@.pos + r->Ready_0->Ok_0
      && final(buf)@.subrange(0, r->Ready_0->Ok_0 as int) == old(self).reader.fd@.content.subrange(old(self).reader.fd@.pos, old(self).reader.fd@.pos + r->Ready_0->Ok_0)
  ensures [C01.Reader.poll_read.eof]
    r is Ready && r->Ready_0 is Ok && r->Ready_0->Ok_0 == 0 && old(buf)@.len() > 0 ==> final(self).reader.fd@.pos == final(self).reader.fd@.content.len()

unit get::Reader::poll_read#tokio
  file get.rs
  flavours tokio
  at impl:AsyncRead for Reader/poll_read
  inherent
  ret r
  props C01 C12 C20
  requires
    crate::content::read::areader_wf(old(self).reader)
  ensures [C01.Reader.poll_read.hands_out_what_it_hashes]
    crate::content::read::areader_wf(final(self).reader) && final(self).reader.fd@.content == old(self).reader.fd@.content
      && final(self).reader.checker@.sri == old(self).reader.checker@.sri
  ensures [C01.Reader.poll_read.bytes]
    r is Ready && r->Ready_0 is Ok ==> old(self).reader.fd@.pos <= final(self).reader.fd@.pos
      && final(buf)@.filled == old(buf)@.filled + old(self).reader.fd@.content.subrange(old(self).reader.fd@.pos, final(self).reader.fd@.pos)
  ensures [C01.Reader.poll_read.eof]
    r is Ready && r->Ready_0 is Ok && final(self).reader.fd@.pos == old(self).reader.fd@.pos && old(buf)@.cap > old(buf)@.filled.len() ==> final(self).reader.fd@.pos == final(self).reader.fd@.content.len()
'''
open(os.path.join(HERE, 'get.vc'), 'w').write(s)
print('wrote get.vc', len(s.split('\n')), 'lines')
