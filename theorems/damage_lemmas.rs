// C06 at the level of the line sequence: every line contributes its own verdict and nothing
// else; replacing (damaging) one line changes the contribution of that line only.
// (What a damaged BYTE sequence splits into is std's `lines()`, an assumed function.)

/// what one line contributes
pub open spec fn line_records(x: IoResult<String>) -> Seq<SerializableMetadata> {
    match x {
        Ok(s) => match valid_line(s) { Some(m) => seq![m], None => Seq::empty() },
        Err(_) => Seq::empty(),
    }
}
pub open spec fn no_hard_error(a: Seq<IoResult<String>>) -> bool {
    forall|i: int| 0 <= i < a.len() ==> !is_hard_error(#[trigger] a[i])
}

// @UNIT thm::lemma_parse_concat theorems/damage_lemmas.rs C06,C04
/// the records of `a ++ b` are the records of `a` followed by the records of `b`
/// (as long as no persistent read error cuts the reading short inside `a`)
pub proof fn lemma_parse_concat(a: Seq<IoResult<String>>, b: Seq<IoResult<String>>)
    requires no_hard_error(a)
    ensures parse_fwd(a + b) =~= parse_fwd(a) + parse_fwd(b)
    decreases a.len()
{
    if a.len() == 0 {
        assert(a + b =~= b);
    } else {
        assert((a + b)[0] == a[0]);
        assert((a + b).skip(1) =~= a.skip(1) + b);
        assert forall|i: int| 0 <= i < a.skip(1).len() implies !is_hard_error(#[trigger] a.skip(1)[i]) by { assert(a.skip(1)[i] == a[i + 1]); }
        lemma_parse_concat(a.skip(1), b);
        assert(!is_hard_error(a[0]));
    }
}
// @ENDUNIT

// @UNIT thm::lemma_one_line theorems/damage_lemmas.rs C06
pub proof fn lemma_one_line(x: IoResult<String>)
    requires !is_hard_error(x)
    ensures parse_fwd(seq![x]) =~= line_records(x)
{
    let s1 = seq![x];
    assert(s1.len() == 1);
    assert(s1.skip(1) =~= Seq::<IoResult<String>>::empty());
    assert(s1[0] == x);
    assert(parse_fwd(s1.skip(1)) =~= Seq::<SerializableMetadata>::empty());
    assert(parse_fwd(s1) =~= line_records(x) + parse_fwd(s1.skip(1)));
}
// @ENDUNIT

// @UNIT thm::lemma_damage_is_local theorems/damage_lemmas.rs C06,C04
/// bucket = lines `a`, then the line `x`, then lines `b`: the result is what `a` gives, what `x`
/// alone gives, what `b` gives - so turning `x` into any other (readable or undecodable) line `y`
/// changes that middle part only, for the sync and the async reader alike
pub proof fn lemma_damage_is_local(a: Seq<IoResult<String>>, x: IoResult<String>, y: IoResult<String>, b: Seq<IoResult<String>>)
    requires no_hard_error(a), !is_hard_error(x), !is_hard_error(y)
    ensures
        // @OBL C06+C04.thm.a_damaged_line_affects_only_its_own_record
        (parse_items(a.push(x) + b) =~= parse_items(a) + line_records(x) + parse_items(b)
            && parse_items(a.push(y) + b) =~= parse_items(a) + line_records(y) + parse_items(b)),
        // @ENDOBL
{
    lemma_parse_fwd_is_parse_items(a.push(x) + b);
    lemma_parse_fwd_is_parse_items(a.push(y) + b);
    lemma_parse_fwd_is_parse_items(a);
    lemma_parse_fwd_is_parse_items(b);
    assert(a.push(x) =~= a + seq![x]);
    assert(a.push(y) =~= a + seq![y]);
    assert forall|i: int| 0 <= i < (a + seq![x]).len() implies !is_hard_error(#[trigger] (a + seq![x])[i]) by {}
    assert forall|i: int| 0 <= i < (a + seq![y]).len() implies !is_hard_error(#[trigger] (a + seq![y])[i]) by {}
    lemma_parse_concat(a + seq![x], b);
    lemma_parse_concat(a + seq![y], b);
    lemma_parse_concat(a, seq![x]);
    lemma_parse_concat(a, seq![y]);
    lemma_one_line(x);
    lemma_one_line(y);
}
// @ENDUNIT
