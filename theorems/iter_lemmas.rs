// Spec-level lemmas (no code involved): head-decomposition of the end-recursive sequence
// functions used by the iterator shims, and the equivalence of the forward (async) and
// adapter-chain (sync) readings of a bucket file.
use crate::shims::iter::{fm, tw};
use crate::shims::std::io::{Result as IoResult, is_hard_error};
use crate::index::{parse_fwd, parse_items, valid_line, keep_going, ok_of, SerializableMetadata};

pub open spec fn opt_seq<U>(o: Option<U>) -> Seq<U> { match o { Some(u) => seq![u], None => Seq::empty() } }

// @UNIT thm::lemma_fm_cons theorems/iter_lemmas.rs C06,C12
pub proof fn lemma_fm_cons<T, U>(s: Seq<T>, g: spec_fn(T) -> Option<U>)
    requires s.len() > 0
    ensures fm(s, g) =~= opt_seq(g(s[0])) + fm(s.skip(1), g)
    decreases s.len()
{
    if s.len() == 1 {
        assert(s.drop_last() =~= Seq::<T>::empty());
        assert(s.skip(1) =~= Seq::<T>::empty());
        assert(s.last() == s[0]);
    } else {
        let t = s.drop_last();
        lemma_fm_cons(t, g);
        assert(t[0] == s[0]);
        assert(t.skip(1) =~= s.skip(1).drop_last());
        assert(s.skip(1).last() == s.last());
        // fm(s) = fm(t) (+ last) ; fm(t) = head + fm(t.skip(1)) ; fm(s.skip(1)) = fm(t.skip(1)) (+ last)
    }
}

// @ENDUNIT
// @UNIT thm::lemma_tw_prefix theorems/iter_lemmas.rs C06,C12
pub proof fn lemma_tw_prefix<T>(s: Seq<T>, p: spec_fn(T) -> bool)
    ensures tw(s, p).len() <= s.len(), tw(s, p) =~= s.subrange(0, tw(s, p).len() as int),
        forall|i: int| 0 <= i < tw(s, p).len() ==> p(#[trigger] s[i]),
        tw(s, p).len() < s.len() ==> !p(s[tw(s, p).len() as int]),
    decreases s.len()
{
    if s.len() > 0 {
        lemma_tw_prefix(s.drop_last(), p);
        let t = s.drop_last();
        assert forall|i: int| 0 <= i < tw(t, p).len() implies p(#[trigger] s[i]) by { assert(t[i] == s[i]); }
        if tw(t, p).len() == s.len() - 1 && p(s.last()) {
        } else {
            assert(tw(s, p) == tw(t, p));
            assert(tw(t, p) =~= s.subrange(0, tw(t, p).len() as int));
        }
    }
}

// @ENDUNIT
// @UNIT thm::lemma_tw_cons theorems/iter_lemmas.rs C06,C12
pub proof fn lemma_tw_cons<T>(s: Seq<T>, p: spec_fn(T) -> bool)
    requires s.len() > 0
    ensures tw(s, p) =~= (if p(s[0]) { seq![s[0]] + tw(s.skip(1), p) } else { Seq::<T>::empty() })
{
    lemma_tw_prefix(s, p);
    lemma_tw_prefix(s.skip(1), p);
    let a = tw(s, p); let b = tw(s.skip(1), p);
    if !p(s[0]) {
        if a.len() > 0 { assert(p(s[0])); }
    } else {
        // a is the longest all-p prefix of s, b the longest all-p prefix of s.skip(1)
        if a.len() == 0 { assert(!p(s[0])); }
        // a.len() - 1 <= b.len(): otherwise b's stopping element satisfies p
        if b.len() < a.len() - 1 {
            assert(!p(s.skip(1)[b.len() as int]));
            assert(s.skip(1)[b.len() as int] == s[b.len() as int + 1]);
            assert(p(s[b.len() as int + 1]));
        }
        if a.len() - 1 < b.len() {
            assert(a.len() < s.len());
            assert(!p(s[a.len() as int]));
            assert(s.skip(1)[a.len() as int - 1] == s[a.len() as int]);
            assert(p(s.skip(1)[a.len() as int - 1]));
        }
        assert(a.len() == b.len() + 1);
        assert(a =~= seq![s[0]] + b) by {
            assert forall|i: int| 0 <= i < a.len() implies a[i] == (seq![s[0]] + b)[i] by {
                if i > 0 { assert(b[i - 1] == s.skip(1)[i - 1]); }
            }
        }
    }
}

// @ENDUNIT
/// C12/C06: reading a bucket front to back (async readers) yields the same records as the
/// take_while / filter_map / filter_map chain of the sync reader
// @UNIT thm::lemma_parse_fwd_is_parse_items theorems/iter_lemmas.rs C06,C12
pub proof fn lemma_parse_fwd_is_parse_items(items: Seq<IoResult<String>>)
    ensures
        // @OBL C12+C06.thm.async_reader_spec_equals_sync_reader_spec
        (parse_fwd(items) =~= parse_items(items)),
        // @ENDOBL
    decreases items.len()
{
    let kg = |x: IoResult<String>| keep_going(x);
    let ok = |x: IoResult<String>| ok_of(x);
    let vl = |s: String| valid_line(s);
    if items.len() == 0 {
        assert(tw(items, kg) =~= Seq::<IoResult<String>>::empty());
    } else {
        lemma_parse_fwd_is_parse_items(items.skip(1));
        lemma_tw_cons(items, kg);
        let x = items[0];
        if is_hard_error(x) {
            assert(!kg(x));
            assert(tw(items, kg) =~= Seq::<IoResult<String>>::empty());
            assert(fm(tw(items, kg), ok) =~= Seq::<String>::empty());
        } else {
            assert(kg(x));
            let rest = tw(items.skip(1), kg);
            let t = seq![x] + rest;
            assert(tw(items, kg) =~= t);
            lemma_fm_cons(t, ok);
            assert(t.skip(1) =~= rest);
            let u = fm(t, ok);
            match x {
                Ok(s) => {
                    assert(ok(x) == Some(s));
                    assert(u =~= seq![s] + fm(rest, ok));
                    lemma_fm_cons(u, vl);
                    assert(u.skip(1) =~= fm(rest, ok));
                }
                Err(e) => {
                    assert(ok(x) is None);
                    assert(u =~= fm(rest, ok));
                }
            }
        }
    }
}
// @ENDUNIT
