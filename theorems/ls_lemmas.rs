// C10 at spec level: what index::ls computes for one bucket (ls_pipeline: keep usable records,
// reverse, collect into a key-equality HashSet, map the non-tombstones) agrees with what a
// lookup (index::find's fold) returns, for every sequence of records and every key.
use crate::shims::iter::{filt, lemma_filt};
use crate::shims::std::collections::{hs_items, axiom_hs_items, first_occ, SpecEq};
use crate::index::{lookup, find_step, usable, listed_of, ls_set, ls_pipeline, agrees_with_lookup, Metadata};

/// index of the last record for `k` (-1: none)
pub open spec fn last_idx(f: Seq<SerializableMetadata>, k: Seq<char>) -> int decreases f.len() {
    if f.len() == 0 { -1 } else if f.last().key@ == k { f.len() - 1 } else { last_idx(f.drop_last(), k) }
}
/// source index of each element `fm` keeps
pub open spec fn fm_idx<T, U>(s: Seq<T>, g: spec_fn(T) -> Option<U>) -> Seq<int> decreases s.len() {
    if s.len() == 0 { Seq::empty() }
    else if g(s.last()) is Some { fm_idx(s.drop_last(), g).push(s.len() - 1) }
    else { fm_idx(s.drop_last(), g) }
}

// @UNIT thm::lemma_fm_idx theorems/ls_lemmas.rs C10
pub proof fn lemma_fm_idx<T, U>(s: Seq<T>, g: spec_fn(T) -> Option<U>)
    ensures
        fm_idx(s, g).len() == fm(s, g).len(),
        forall|j: int| 0 <= j < fm(s, g).len() ==> 0 <= #[trigger] fm_idx(s, g)[j] < s.len() && g(s[fm_idx(s, g)[j]]) == Some(fm(s, g)[j]),
        forall|j1: int, j2: int| 0 <= j1 < j2 < fm(s, g).len() ==> #[trigger] fm_idx(s, g)[j1] < #[trigger] fm_idx(s, g)[j2],
        forall|i: int| 0 <= i < s.len() && g(#[trigger] s[i]) is Some ==> exists|j: int| 0 <= j < fm(s, g).len() && #[trigger] fm_idx(s, g)[j] == i,
    decreases s.len()
{
    if s.len() > 0 {
        let t = s.drop_last();
        lemma_fm_idx(t, g);
        assert forall|i: int| 0 <= i < s.len() && g(#[trigger] s[i]) is Some implies exists|j: int| 0 <= j < fm(s, g).len() && #[trigger] fm_idx(s, g)[j] == i by {
            if i < s.len() - 1 {
                assert(t[i] == s[i]);
                let j = choose|j: int| 0 <= j < fm(t, g).len() && #[trigger] fm_idx(t, g)[j] == i;
                assert(fm_idx(s, g)[j] == i);
            } else {
                assert(fm_idx(s, g)[fm(s, g).len() - 1] == i);
            }
        }
        assert forall|j: int| 0 <= j < fm(s, g).len() implies 0 <= #[trigger] fm_idx(s, g)[j] < s.len() && g(s[fm_idx(s, g)[j]]) == Some(fm(s, g)[j]) by {
            if j < fm(t, g).len() { assert(t[fm_idx(t, g)[j]] == s[fm_idx(t, g)[j]]); }
        }
    }
}
// @ENDUNIT

// @UNIT thm::lemma_lookup_filt theorems/ls_lemmas.rs C10
/// a lookup is unaffected by records whose integrity text does not parse
pub proof fn lemma_lookup_filt(recs: Seq<SerializableMetadata>, k: Seq<char>)
    ensures lookup(recs, k) == lookup(filt(recs, |e: SerializableMetadata| usable(e)), k)
    decreases recs.len()
{
    let p = |e: SerializableMetadata| usable(e);
    if recs.len() > 0 {
        lemma_lookup_filt(recs.drop_last(), k);
        let e = recs.last();
        if usable(e) {
            let f = filt(recs.drop_last(), p).push(e);
            assert(f.drop_last() =~= filt(recs.drop_last(), p));
            assert(f.last() == e);
        }
    }
}
// @ENDUNIT

// @UNIT thm::lemma_last_idx theorems/ls_lemmas.rs C10
pub proof fn lemma_last_idx(f: Seq<SerializableMetadata>, k: Seq<char>)
    ensures
        -1 <= last_idx(f, k) < f.len(),
        last_idx(f, k) >= 0 ==> f[last_idx(f, k)].key@ == k,
        forall|m: int| last_idx(f, k) < m < f.len() ==> (#[trigger] f[m]).key@ != k,
    decreases f.len()
{
    if f.len() > 0 {
        lemma_last_idx(f.drop_last(), k);
        assert forall|m: int| last_idx(f, k) < m < f.len() implies (#[trigger] f[m]).key@ != k by {
            if m < f.len() - 1 { assert(f.drop_last()[m] == f[m]); }
        }
    }
}
// @ENDUNIT

// @UNIT thm::lemma_lookup_last theorems/ls_lemmas.rs C10
/// over usable records, a lookup returns what the last record for the key stands for
pub proof fn lemma_lookup_last(f: Seq<SerializableMetadata>, k: Seq<char>)
    requires forall|i: int| 0 <= i < f.len() ==> usable(#[trigger] f[i])
    ensures lookup(f, k) == (if last_idx(f, k) >= 0 { listed_of(f[last_idx(f, k)]) } else { None::<Metadata> })
    decreases f.len()
{
    if f.len() > 0 {
        let t = f.drop_last();
        assert forall|i: int| 0 <= i < t.len() implies usable(#[trigger] t[i]) by { assert(t[i] == f[i]); }
        lemma_lookup_last(t, k);
        lemma_last_idx(t, k);
        assert(usable(f[f.len() - 1]));
        if f.last().key@ != k && last_idx(t, k) >= 0 {
            assert(t[last_idx(t, k)] == f[last_idx(t, k)]);
        }
    }
}
// @ENDUNIT

// @UNIT thm::lemma_first_occ_rev theorems/ls_lemmas.rs C10
/// the first record for a key in the reversed sequence is the last one in the original
pub proof fn lemma_first_occ_rev(f: Seq<SerializableMetadata>, i: int)
    requires first_occ(f.reverse(), i)
    ensures 0 <= i < f.len(), f.reverse()[i] == f[f.len() - 1 - i], last_idx(f, f.reverse()[i].key@) == f.len() - 1 - i
{
    let r = f.reverse();
    let n = f.len() as int;
    let k = r[i].key@;
    assert(r[i] == f[n - 1 - i]);
    lemma_last_idx(f, k);
    let li = last_idx(f, k);
    if li > n - 1 - i {
        assert(r[n - 1 - li] == f[li]);
        assert(r[n - 1 - li].spec_eq(&r[i]));
    }
}
// @ENDUNIT

// @UNIT thm::lemma_listing_sound theorems/ls_lemmas.rs C10,C09,C11
/// every listed entry is what a lookup of its key returns
pub proof fn lemma_listing_sound(recs: Seq<SerializableMetadata>, j: int)
    requires 0 <= j < ls_pipeline(recs).len()
    ensures lookup(recs, ls_pipeline(recs)[j].key@) == Some(ls_pipeline(recs)[j])
{
    let p = |e: SerializableMetadata| usable(e);
    let g = |e: SerializableMetadata| listed_of(e);
    let f = filt(recs, p);
    let n = f.len() as int;
    let r = f.reverse();
    let h = hs_items(r);
    let v = fm(h, g);
    assert(h == ls_set(recs));
    assert(v == ls_pipeline(recs));
    lemma_filt(recs, p);
    axiom_hs_items(r);
    lemma_fm_idx(h, g);
    let ix = fm_idx(h, g);
    assert forall|i: int| 0 <= i < f.len() implies usable(#[trigger] f[i]) by { assert(p(f[i])); }
    let e = h[ix[j]];
    assert(g(e) == Some(v[j]));
    let k = e.key@;
    assert(v[j].key@ == k);
    let i = choose|i: int| first_occ(r, i) && h[ix[j]] == r[i];
    lemma_first_occ_rev(f, i);
    lemma_lookup_last(f, k);
    lemma_lookup_filt(recs, k);
}
// @ENDUNIT

// @UNIT thm::lemma_listing_complete theorems/ls_lemmas.rs C10,C09,C11
/// every key a lookup finds is listed, with the entry the lookup returns
pub proof fn lemma_listing_complete(recs: Seq<SerializableMetadata>, k: Seq<char>)
    requires lookup(recs, k) is Some
    ensures exists|j: int| 0 <= j < ls_pipeline(recs).len() && #[trigger] ls_pipeline(recs)[j] == lookup(recs, k)->Some_0
{
    let p = |e: SerializableMetadata| usable(e);
    let g = |e: SerializableMetadata| listed_of(e);
    let f = filt(recs, p);
    let n = f.len() as int;
    let r = f.reverse();
    let h = hs_items(r);
    let v = fm(h, g);
    assert(h == ls_set(recs));
    assert(v == ls_pipeline(recs));
    lemma_filt(recs, p);
    axiom_hs_items(r);
    lemma_fm_idx(h, g);
    let ix = fm_idx(h, g);
    assert forall|i: int| 0 <= i < f.len() implies usable(#[trigger] f[i]) by { assert(p(f[i])); }
    lemma_lookup_filt(recs, k);
    lemma_lookup_last(f, k);
    lemma_last_idx(f, k);
    let li = last_idx(f, k);
    let i = n - 1 - li;
    assert(r[i] == f[li]);
    assert forall|q: int| 0 <= q < i implies !(#[trigger] r[q]).spec_eq(&r[i]) by { assert(r[q] == f[n - 1 - q]); }
    assert(first_occ(r, i));
    let j0 = choose|j0: int| 0 <= j0 < h.len() && #[trigger] h[j0] == r[i];
    assert(g(h[j0]) is Some);
    let j = choose|j: int| 0 <= j < v.len() && #[trigger] ix[j] == j0;
    assert(g(h[ix[j]]) == Some(v[j]));
    assert(v[j] == lookup(recs, k)->Some_0);
}
// @ENDUNIT

// @UNIT thm::lemma_listing_once theorems/ls_lemmas.rs C10,C09
/// no key is listed twice
pub proof fn lemma_listing_once(recs: Seq<SerializableMetadata>, j1: int, j2: int)
    requires 0 <= j1 < j2 < ls_pipeline(recs).len()
    ensures ls_pipeline(recs)[j1].key@ != ls_pipeline(recs)[j2].key@
{
    let p = |e: SerializableMetadata| usable(e);
    let g = |e: SerializableMetadata| listed_of(e);
    let f = filt(recs, p);
    let n = f.len() as int;
    let r = f.reverse();
    let h = hs_items(r);
    let v = fm(h, g);
    assert(h == ls_set(recs));
    assert(v == ls_pipeline(recs));
    lemma_filt(recs, p);
    axiom_hs_items(r);
    lemma_fm_idx(h, g);
    let ix = fm_idx(h, g);
    assert forall|i: int| 0 <= i < f.len() implies usable(#[trigger] f[i]) by { assert(p(f[i])); }
    assert(ix[j1] < ix[j2]);
    assert(g(h[ix[j1]]) == Some(v[j1]));
    assert(g(h[ix[j2]]) == Some(v[j2]));
    assert(!h[ix[j1]].spec_eq(&h[ix[j2]]));
}
// @ENDUNIT

// @UNIT thm::lemma_listing_agrees_with_lookup theorems/ls_lemmas.rs C10,C09,C11
pub proof fn lemma_listing_agrees_with_lookup(recs: Seq<SerializableMetadata>)
    ensures
        // @OBL C10+C09+C11.thm.bucket_listing_agrees_with_lookup
        (agrees_with_lookup(ls_pipeline(recs), recs)),
        // @ENDOBL
{
    let v = ls_pipeline(recs);
    assert forall|j: int| 0 <= j < v.len() implies lookup(recs, (#[trigger] v[j]).key@) == Some(v[j]) by { lemma_listing_sound(recs, j); }
    assert forall|k: Seq<char>| (#[trigger] lookup(recs, k)) is Some implies exists|j: int| 0 <= j < v.len() && #[trigger] v[j] == lookup(recs, k)->Some_0 by { lemma_listing_complete(recs, k); }
    assert forall|j1: int, j2: int| 0 <= j1 < j2 < v.len() implies (#[trigger] v[j1]).key@ != (#[trigger] v[j2]).key@ by { lemma_listing_once(recs, j1, j2); }
}
// @ENDUNIT
