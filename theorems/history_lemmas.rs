// C05 / C09 / C04 at the level of record sequences (no code, no bytes involved): what a lookup
// returns after records have been appended to a bucket.  The step from "bytes appended to the
// bucket file" to "record appended to parse_bucket(..)" is the format assumption (std `lines`);
// the step from a call to an appended record is the proved contract of index::insert / delete.


// @UNIT thm::lemma_lookup_append theorems/history_lemmas.rs C05,C04
/// one more record = one more fold step
pub proof fn lemma_lookup_append(recs: Seq<SerializableMetadata>, e: SerializableMetadata, k: Seq<char>)
    ensures lookup(recs.push(e), k) == find_step(k, lookup(recs, k), e)
{
    assert(recs.push(e).drop_last() =~= recs);
}
// @ENDUNIT

// @UNIT thm::lemma_append_other_key theorems/history_lemmas.rs C05,C09,C04
/// a record for another key changes nothing for this key (writes and removals of one key never
/// change what another key returns)
pub proof fn lemma_append_other_key(recs: Seq<SerializableMetadata>, e: SerializableMetadata, k: Seq<char>)
    requires e.key@ != k
    ensures
        // @OBL C05+C09+C04.thm.other_keys_unaffected_by_an_append
        (lookup(recs.push(e), k) == lookup(recs, k)),
        // @ENDOBL
{
    lemma_lookup_append(recs, e, k);
}
// @ENDUNIT

// @UNIT thm::lemma_append_same_key theorems/history_lemmas.rs C05,C09,C04
/// the most recent usable record for the key decides: an entry, or absent after a tombstone
pub proof fn lemma_append_same_key(recs: Seq<SerializableMetadata>, e: SerializableMetadata)
    requires usable(e)
    ensures
        // @OBL C05+C09+C04.thm.latest_record_for_the_key_decides
        (lookup(recs.push(e), e.key@) == listed_of(e) && (e.integrity is None ==> lookup(recs.push(e), e.key@) is None)),
        // @ENDOBL
{
    lemma_lookup_append(recs, e, e.key@);
}
// @ENDUNIT

// @UNIT thm::lemma_lookup_after_history theorems/history_lemmas.rs C05,C09,C04
/// after any sequence `ops` of usable records appended to a bucket holding `recs0`, a lookup of
/// `k` returns what the LAST record for `k` among `ops` stands for, or - if `ops` has none for
/// `k` - what it returned before.  (Induction over the history; earlier entries never resurface.)
pub proof fn lemma_lookup_after_history(recs0: Seq<SerializableMetadata>, ops: Seq<SerializableMetadata>, k: Seq<char>)
    requires forall|i: int| 0 <= i < ops.len() ==> usable(#[trigger] ops[i])
    ensures
        // @OBL C05+C09+C04.thm.lookup_after_any_history_is_the_last_record_for_the_key
        (lookup(recs0 + ops, k) == (if last_idx(ops, k) >= 0 { listed_of(ops[last_idx(ops, k)]) } else { lookup(recs0, k) })),
        // @ENDOBL
    decreases ops.len()
{
    if ops.len() == 0 {
        assert(recs0 + ops =~= recs0);
    } else {
        let t = ops.drop_last();
        let e = ops.last();
        assert forall|i: int| 0 <= i < t.len() implies usable(#[trigger] t[i]) by { assert(t[i] == ops[i]); }
        lemma_lookup_after_history(recs0, t, k);
        assert(recs0 + ops =~= (recs0 + t).push(e));
        lemma_lookup_append(recs0 + t, e, k);
        lemma_last_idx(t, k);
        assert(usable(ops[ops.len() - 1]));
        if e.key@ != k && last_idx(t, k) >= 0 {
            assert(t[last_idx(t, k)] == ops[last_idx(t, k)]);
        }
    }
}
// @ENDUNIT
