// ---- paths -------------------------------------------------------------------------
// A path is a sequence of components.  Pushing a string that is a *plain*
// component (non-empty, no '/', not "." or "..") appends it; pushing anything
// else (absolute paths, strings with separators, "..") yields an unspecified
// path (`weird_join`), about which nothing can be proved — so a unit whose
// contract needs `under(result, cache)` cannot be verified if it builds a path
// from text that is not known to be a plain component.
pub struct PathV { pub comps: Seq<Seq<char>> }

pub open spec fn is_plain(s: Seq<char>) -> bool {
    &&& s.len() > 0
    &&& forall|i: int| 0 <= i < s.len() ==> s[i] != '/' && s[i] != '\0'
    &&& !(s.len() == 1 && s[0] == '.')
    &&& !(s.len() == 2 && s[0] == '.' && s[1] == '.')
}
pub uninterp spec fn weird_join(p: PathV, s: Seq<char>) -> PathV;
pub open spec fn pjoin(p: PathV, s: Seq<char>) -> PathV {
    if is_plain(s) { PathV { comps: p.comps.push(s) } } else { weird_join(p, s) }
}
pub open spec fn child(p: PathV, s: Seq<char>) -> PathV { PathV { comps: p.comps.push(s) } }
/// p is d or lies below d
pub open spec fn under(p: PathV, d: PathV) -> bool {
    d.comps.len() <= p.comps.len() && p.comps.subrange(0, d.comps.len() as int) == d.comps
}
pub open spec fn strictly_under(p: PathV, d: PathV) -> bool { under(p, d) && p != d }
pub open spec fn parent_of(p: PathV) -> PathV { PathV { comps: p.comps.drop_last() } }
pub open spec fn rel_to(p: PathV, d: PathV) -> Seq<Seq<char>> {
    p.comps.subrange(d.comps.len() as int, p.comps.len() as int)
}

pub open spec fn is_hex_digit(c: char) -> bool {
    ('0' <= c && c <= '9') || ('a' <= c && c <= 'f')
}
pub open spec fn all_hex(s: Seq<char>) -> bool { forall|i: int| 0 <= i < s.len() ==> is_hex_digit(#[trigger] s[i]) }

pub proof fn lemma_hex_plain(s: Seq<char>)
    requires all_hex(s), s.len() > 0
    ensures is_plain(s)
{
    assert forall|i: int| 0 <= i < s.len() implies s[i] != '/' && s[i] != '\0' by { assert(is_hex_digit(s[i])); }
    if s.len() == 1 { assert(is_hex_digit(s[0])); }
    if s.len() == 2 { assert(is_hex_digit(s[0])); }
}
pub proof fn lemma_hex_sub(s: Seq<char>, a: int, b: int)
    requires all_hex(s), 0 <= a <= b <= s.len()
    ensures all_hex(s.subrange(a, b))
{
    assert forall|i: int| 0 <= i < s.subrange(a, b).len() implies is_hex_digit(#[trigger] s.subrange(a, b)[i]) by {
        assert(s.subrange(a, b)[i] == s[a + i]);
    }
}
pub proof fn lemma_under_child(p: PathV, d: PathV, s: Seq<char>)
    requires under(p, d)
    ensures under(child(p, s), d)
{
    assert(child(p, s).comps.subrange(0, d.comps.len() as int) =~= p.comps.subrange(0, d.comps.len() as int));
}
pub proof fn lemma_under_refl(p: PathV) ensures under(p, p) {
    assert(p.comps.subrange(0, p.comps.len() as int) =~= p.comps);
}
pub proof fn lemma_under_trans(a: PathV, b: PathV, c: PathV)
    requires under(a, b), under(b, c) ensures under(a, c)
{
    assert(a.comps.subrange(0, c.comps.len() as int) =~= b.comps.subrange(0, c.comps.len() as int));
}

// ---- integrity values (ssri) ---------------------------------------------------------
// Abstract view of an `ssri::Integrity`.  All functions over it are uninterpreted;
// what is assumed about them is stated as named axioms below and in shims/ssri.rs.
pub struct SriV { pub id: int }
pub enum AlgoV { Sha512, Sha384, Sha256, Sha1, Xxh3 }

/// the value has >= 1 hash and the hash `pick_algorithm` selects carries a valid
/// base64 digest of that algorithm's length  (the statement's "well-formed")
pub uninterp spec fn sri_wf(s: SriV) -> bool;
/// the value has >= 1 hash (ssri `pick_algorithm` indexes hashes[0])
pub uninterp spec fn sri_nonempty(s: SriV) -> bool;
#[verifier::external_body]
pub broadcast proof fn axiom_wf_nonempty(s: SriV) requires sri_wf(s) ensures #[trigger] sri_nonempty(s) {}
/// strongest algorithm present (ssri `pick_algorithm`)
pub uninterp spec fn sri_algo(s: SriV) -> AlgoV;
/// lower-case hex of the digest of the picked hash (ssri `to_hex().1`)
pub uninterp spec fn sri_hex(s: SriV) -> Seq<char>;
/// ssri `Integrity::check(data)` succeeds  (== `IntegrityChecker` fed with data succeeds)
pub uninterp spec fn sri_matches(s: SriV, data: Seq<u8>) -> bool;
/// the integrity value `IntegrityOpts::new().algorithm(a)` computes for `data`
pub uninterp spec fn digest_of(a: AlgoV, data: Seq<u8>) -> SriV;
/// Display / FromStr of Integrity
pub uninterp spec fn sri_string(s: SriV) -> Seq<char>;
pub uninterp spec fn sri_parse(t: Seq<char>) -> Option<SriV>;
/// ssri `a.matches(b)` is Some
pub uninterp spec fn sri_match_sri(a: SriV, b: SriV) -> bool;
/// Display of Algorithm: "sha512" "sha384" "sha256" "sha1" "xxh3"
pub open spec fn algo_name(a: AlgoV) -> Seq<char> {
    match a {
        AlgoV::Sha512 => "sha512"@,
        AlgoV::Sha384 => "sha384"@,
        AlgoV::Sha256 => "sha256"@,
        AlgoV::Sha1 => "sha1"@,
        AlgoV::Xxh3 => "xxh3"@,
    }
}
pub proof fn lemma_algo_name_plain(a: AlgoV) ensures is_plain(algo_name(a)), all_alnum(algo_name(a))
{
    reveal_strlit("sha512"); reveal_strlit("sha384"); reveal_strlit("sha256"); reveal_strlit("sha1"); reveal_strlit("xxh3");
}
pub open spec fn all_alnum(s: Seq<char>) -> bool {
    forall|i: int| 0 <= i < s.len() ==> (('0' <= #[trigger] s[i] && s[i] <= '9') || ('a' <= s[i] && s[i] <= 'z'))
}

#[verifier::external_body]
pub broadcast proof fn axiom_sri_hex(s: SriV)
    requires sri_wf(s)
    ensures #![trigger sri_hex(s)] all_hex(sri_hex(s)), sri_hex(s).len() >= 16
{}
#[verifier::external_body]
pub broadcast proof fn axiom_digest_wf(a: AlgoV, d: Seq<u8>)
    ensures #![trigger digest_of(a, d)] sri_wf(digest_of(a, d)), sri_algo(digest_of(a, d)) == a, sri_matches(digest_of(a, d), d)
{}

// ---- content addressing (from the statement of C17 / C16) ---------------------------------
pub open spec fn content_dir(cache: PathV) -> PathV { child(cache, "content-v2"@) }
pub open spec fn index_dir(cache: PathV) -> PathV { child(cache, "index-v5"@) }
pub open spec fn tmp_dir(cache: PathV) -> PathV { child(cache, "tmp"@) }
/// [algo, hex[0..2], hex[2..4], hex[4..]]
pub open spec fn content_rel(s: SriV) -> Seq<Seq<char>> {
    let h = sri_hex(s);
    seq![algo_name(sri_algo(s)), h.subrange(0, 2), h.subrange(2, 4), h.subrange(4, h.len() as int)]
}
pub open spec fn content_path_spec(cache: PathV, s: SriV) -> PathV {
    PathV { comps: content_dir(cache).comps + content_rel(s) }
}

// ---- text <-> bytes -------------------------------------------------------------------
/// UTF-8 encoding (`str::as_bytes`)
pub uninterp spec fn utf8(s: Seq<char>) -> Seq<u8>;

pub proof fn lemma_dirnames()
    ensures
        "content-v"@ + "2"@ =~= "content-v2"@, is_plain("content-v2"@),
        "index-v"@ + "5"@ =~= "index-v5"@, is_plain("index-v5"@),
        is_plain("tmp"@),
{
    reveal_strlit("content-v"); reveal_strlit("2"); reveal_strlit("content-v2");
    reveal_strlit("index-v"); reveal_strlit("5"); reveal_strlit("index-v5"); reveal_strlit("tmp");
}
pub proof fn lemma_content_rel_plain(s: SriV)
    requires sri_wf(s)
    ensures
        is_plain(algo_name(sri_algo(s))),
        all_hex(sri_hex(s)), sri_hex(s).len() >= 16,
        crate::shims::strs::all_ascii(sri_hex(s)),
        is_plain(sri_hex(s).subrange(0, 2)), is_plain(sri_hex(s).subrange(2, 4)),
        is_plain(sri_hex(s).subrange(4, sri_hex(s).len() as int)),
{
    broadcast use axiom_sri_hex;
    let h = sri_hex(s);
    lemma_algo_name_plain(sri_algo(s));
    lemma_hex_sub(h, 0, 2); lemma_hex_sub(h, 2, 4); lemma_hex_sub(h, 4, h.len() as int);
    lemma_hex_plain(h.subrange(0, 2)); lemma_hex_plain(h.subrange(2, 4)); lemma_hex_plain(h.subrange(4, h.len() as int));
    assert forall|i: int| 0 <= i < h.len() implies (#[trigger] h[i] as u32) < 128 by { assert(is_hex_digit(h[i])); }
}

pub broadcast group group_spec_axioms {
    axiom_data_ok,
    axiom_wf_nonempty,
    axiom_sri_hex,
    axiom_digest_wf,
}
