// ---- index format (from the statement of C17) ------------------------------------------
/// raw digest bytes (uninterpreted: that they are the standard SHA-1 / SHA-256 is the
/// business of the sha1/sha2 crates)
pub uninterp spec fn sha1_raw(b: Seq<u8>) -> Seq<u8>;
pub uninterp spec fn sha256_raw(b: Seq<u8>) -> Seq<u8>;
/// hex::encode
pub uninterp spec fn hex_of(b: Seq<u8>) -> Seq<char>;
#[verifier::external_body]
pub broadcast proof fn axiom_hex_of(b: Seq<u8>)
    ensures #![trigger hex_of(b)] hex_of(b).len() == 2 * b.len(), all_hex(hex_of(b))
{}
#[verifier::external_body]
pub broadcast proof fn axiom_sha_len(b: Seq<u8>)
    ensures #![trigger sha1_raw(b)] #![trigger sha256_raw(b)] sha1_raw(b).len() == 20, sha256_raw(b).len() == 32
{}
pub open spec fn hash_key_spec(key: Seq<char>) -> Seq<char> { hex_of(sha1_raw(utf8(key))) }
pub open spec fn hash_entry_spec(text: Seq<char>) -> Seq<char> { hex_of(sha256_raw(utf8(text))) }

/// index-v5/<h[0..2]>/<h[2..4]>/<h[4..]>  with h = hex SHA-1 of the key
pub open spec fn bucket_rel(key: Seq<char>) -> Seq<Seq<char>> {
    let h = hash_key_spec(key);
    seq![h.subrange(0, 2), h.subrange(2, 4), h.subrange(4, h.len() as int)]
}
pub open spec fn bucket_path_spec(cache: PathV, key: Seq<char>) -> PathV {
    PathV { comps: index_dir(cache).comps + bucket_rel(key) }
}
pub proof fn lemma_bucket_rel_plain(key: Seq<char>)
    ensures
        hash_key_spec(key).len() == 40, all_hex(hash_key_spec(key)),
        crate::shims::strs::all_ascii(hash_key_spec(key)),
        is_plain(hash_key_spec(key).subrange(0, 2)), is_plain(hash_key_spec(key).subrange(2, 4)),
        is_plain(hash_key_spec(key).subrange(4, 40)),
{
    broadcast use axiom_hex_of, axiom_sha_len;
    let h = hash_key_spec(key);
    lemma_hex_sub(h, 0, 2); lemma_hex_sub(h, 2, 4); lemma_hex_sub(h, 4, 40);
    lemma_hex_plain(h.subrange(0, 2)); lemma_hex_plain(h.subrange(2, 4)); lemma_hex_plain(h.subrange(4, 40));
    assert forall|i: int| 0 <= i < h.len() implies (#[trigger] h[i] as u32) < 128 by { assert(is_hex_digit(h[i])); }
}

/// one record: newline, hex SHA-256 of the JSON text, tab, the JSON text
pub open spec fn record_text(json: Seq<char>) -> Seq<char> {
    "\n"@ + hash_entry_spec(json) + "\t"@ + json
}
pub open spec fn record_bytes(json: Seq<char>) -> Seq<u8> { utf8(record_text(json)) }

/// split a text at every occurrence of `c` (n occurrences give n+1 pieces) — `str::split(char)`
pub open spec fn split_at(s: Seq<char>, c: char) -> Seq<Seq<char>> decreases s.len() {
    if s.len() == 0 { seq![Seq::<char>::empty()] }
    else if s.last() == c { split_at(s.drop_last(), c).push(Seq::<char>::empty()) }
    else {
        let p = split_at(s.drop_last(), c);
        p.drop_last().push(p.last().push(s.last()))
    }
}

pub proof fn lemma_bucket_in_index(cache: PathV, key: Seq<char>)
    ensures under(bucket_path_spec(cache, key), index_dir(cache)), bucket_path_spec(cache, key).comps.len() == cache.comps.len() + 4
{
    let d = index_dir(cache).comps; let r = bucket_rel(key);
    assert((d + r).subrange(0, d.len() as int) =~= d);
}
