// ---- ghost file system ------------------------------------------------------------------
// `files` maps a path to the bytes of the regular file there; `links` maps a path to
// the target of a symbolic link there; `dirs` is the set of directories.
// Hard links are modelled as snapshot copies (aliasing between the two names is not).
pub struct Fs {
    pub files: Map<PathV, Seq<u8>>,
    pub links: Map<PathV, PathV>,
    pub dirs: Set<PathV>,
}
/// The ghost world threaded through every unit that touches the file system (R3).
/// `hist` records *every* intermediate file-system state: each primitive appends the
/// states it passes through (a data write contributes one state per torn prefix).
pub tracked struct World {
    pub ghost fs: Fs,
    pub ghost hist: Seq<Fs>,
    /// no primitive fails for an environmental reason, data writes are complete
    pub ghost healthy: bool,
}
pub open spec fn world_wf(w: World) -> bool { w.hist.len() > 0 && w.hist.last() == w.fs }

/// resolve a path through at most one symbolic link at the final component
pub open spec fn resolve(fs: Fs, p: PathV) -> PathV {
    if fs.links.contains_key(p) { fs.links[p] } else { p }
}
/// what `open(p)` for reading sees: the bytes of the file p names (following a symlink)
pub open spec fn readable(fs: Fs, p: PathV) -> bool { fs.files.contains_key(resolve(fs, p)) }
pub open spec fn bytes_at(fs: Fs, p: PathV) -> Seq<u8> { fs.files[resolve(fs, p)] }
/// something (file, link or directory) exists at p
pub open spec fn exists_at(fs: Fs, p: PathV) -> bool {
    fs.files.contains_key(p) || fs.links.contains_key(p) || fs.dirs.contains(p)
}

/// `hist` grew only by states satisfying `inv`
pub open spec fn hist_all(w: World, from: int, inv: spec_fn(Fs) -> bool) -> bool {
    forall|i: int| from <= i < w.hist.len() ==> inv(#[trigger] w.hist[i])
}
/// every new history state is one of the two given states
pub open spec fn hist_ext(pre: World, post: World) -> bool {
    pre.hist.len() <= post.hist.len() && forall|i: int| 0 <= i < pre.hist.len() ==> #[trigger] post.hist[i] == pre.hist[i]
}

/// nothing at or below `d` differs between the two states
pub open spec fn same_under(a: Fs, b: Fs, d: PathV) -> bool {
    &&& forall|p: PathV| #![trigger a.files.contains_key(p)] #![trigger b.files.contains_key(p)] under(p, d) ==> (a.files.contains_key(p) <==> b.files.contains_key(p))
    &&& forall|p: PathV| under(p, d) && #[trigger] a.files.contains_key(p) ==> a.files[p] == b.files[p]
    &&& forall|p: PathV| #![trigger a.links.contains_key(p)] #![trigger b.links.contains_key(p)] under(p, d) ==> (a.links.contains_key(p) <==> b.links.contains_key(p))
    &&& forall|p: PathV| under(p, d) && #[trigger] a.links.contains_key(p) ==> a.links[p] == b.links[p]
}
/// nothing outside `d` differs between the two states (files, links and directories)
pub open spec fn same_outside(a: Fs, b: Fs, d: PathV) -> bool {
    &&& forall|p: PathV| #![trigger a.files.contains_key(p)] #![trigger b.files.contains_key(p)] !under(p, d) ==> (a.files.contains_key(p) <==> b.files.contains_key(p))
    &&& forall|p: PathV| !under(p, d) && #[trigger] a.files.contains_key(p) ==> a.files[p] == b.files[p]
    &&& forall|p: PathV| #![trigger a.links.contains_key(p)] #![trigger b.links.contains_key(p)] !under(p, d) ==> (a.links.contains_key(p) <==> b.links.contains_key(p))
    &&& forall|p: PathV| !under(p, d) && #[trigger] a.links.contains_key(p) ==> a.links[p] == b.links[p]
    &&& forall|p: PathV| #![trigger a.dirs.contains(p)] #![trigger b.dirs.contains(p)] !under(p, d) ==> (a.dirs.contains(p) <==> b.dirs.contains(p))
}
/// the only path whose file/link node may differ is `q`
pub open spec fn same_except(a: Fs, b: Fs, q: PathV) -> bool {
    &&& forall|p: PathV| #![trigger a.files.contains_key(p)] #![trigger b.files.contains_key(p)] p != q ==> (a.files.contains_key(p) <==> b.files.contains_key(p))
    &&& forall|p: PathV| p != q && #[trigger] a.files.contains_key(p) ==> a.files[p] == b.files[p]
    &&& a.links == b.links
}

pub proof fn lemma_under_child_towards(d: PathV, p: PathV)
    requires strictly_under(p, d)
    ensures under(p, child_towards_spec(d, p)), parent_of(child_towards_spec(d, p)) == d, child_towards_spec(d, p).comps.len() == d.comps.len() + 1,
        under(child_towards_spec(d, p), d),
{
    let n = d.comps.len() as int;
    assert(p.comps.len() > n) by {
        if p.comps.len() == n { assert(p.comps.subrange(0, n) =~= p.comps); }
    }
    let c = child_towards_spec(d, p);
    assert(c.comps.drop_last() =~= d.comps) by { assert(p.comps.subrange(0, n + 1).subrange(0, n) =~= p.comps.subrange(0, n)); }
    assert(p.comps.subrange(0, n + 1) =~= c.comps);
    assert(c.comps.subrange(0, n) =~= d.comps);
}
pub open spec fn child_towards_spec(d: PathV, p: PathV) -> PathV { PathV { comps: p.comps.subrange(0, d.comps.len() as int + 1) } }
