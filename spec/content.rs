// ---- content area invariant (C03) ------------------------------------------------------------
/// "the bytes `data` are the complete data whose digest is the address `rel`" for a path
/// `rel` relative to content-v2 (uninterpreted; tied to ssri by the axiom below)
pub uninterp spec fn data_ok(rel: Seq<Seq<char>>, data: Seq<u8>) -> bool;
#[verifier::external_body]
pub broadcast proof fn axiom_data_ok(s: SriV, d: Seq<u8>)
    ensures #[trigger] data_ok(content_rel(s), d) == sri_matches(s, d)
{}
/// every regular file in the content area holds data matching its address
pub open spec fn content_ok(fs: Fs, cache: PathV) -> bool {
    forall|p: PathV| #[trigger] fs.files.contains_key(p) && under(p, content_dir(cache)) ==> data_ok(rel_to(p, content_dir(cache)), fs.files[p])
}
/// files and links outside `d` are the same in both states (directories may differ)
pub open spec fn files_same_outside(a: Fs, b: Fs, d: PathV) -> bool {
    &&& forall|p: PathV| #![trigger a.files.contains_key(p)] #![trigger b.files.contains_key(p)] !under(p, d) ==> (a.files.contains_key(p) <==> b.files.contains_key(p))
    &&& forall|p: PathV| !under(p, d) && #[trigger] a.files.contains_key(p) ==> a.files[p] == b.files[p]
    &&& forall|p: PathV| #![trigger a.links.contains_key(p)] #![trigger b.links.contains_key(p)] !under(p, d) ==> (a.links.contains_key(p) <==> b.links.contains_key(p))
    &&& forall|p: PathV| !under(p, d) && #[trigger] a.links.contains_key(p) ==> a.links[p] == b.links[p]
}
/// no content file of the cache disappears between the two states
pub open spec fn content_kept(a: Fs, b: Fs, cache: PathV) -> bool {
    forall|p: PathV| #![trigger a.files.contains_key(p)] #![trigger b.files.contains_key(p)] under(p, content_dir(cache)) && a.files.contains_key(p) ==> b.files.contains_key(p)
}
/// `post` was reached from `pre` through states that differ from `pre.fs` only inside `d`
/// (files/links) and by added directories
pub open spec fn only_under(pre: World, post: World, d: PathV) -> bool {
    &&& hist_ext(pre, post) && post.healthy == pre.healthy && (world_wf(pre) ==> world_wf(post))
    &&& files_same_outside(pre.fs, post.fs, d)
    &&& forall|i: int| pre.hist.len() <= i < post.hist.len() ==> files_same_outside(pre.fs, #[trigger] post.hist[i], d)
}
pub proof fn lemma_cache_areas_disjoint(cache: PathV)
    ensures
        forall|p: PathV| under(p, tmp_dir(cache)) ==> !#[trigger] under(p, content_dir(cache)),
        forall|p: PathV| under(p, tmp_dir(cache)) ==> !#[trigger] under(p, index_dir(cache)),
        forall|p: PathV| under(p, content_dir(cache)) ==> !#[trigger] under(p, index_dir(cache)),
        forall|p: PathV| under(p, index_dir(cache)) ==> !#[trigger] under(p, content_dir(cache)),
        forall|p: PathV| #[trigger] under(p, tmp_dir(cache)) ==> under(p, cache),
        forall|p: PathV| #[trigger] under(p, content_dir(cache)) ==> under(p, cache),
        forall|p: PathV| #[trigger] under(p, index_dir(cache)) ==> under(p, cache),
{
    reveal_strlit("tmp"); reveal_strlit("content-v2"); reveal_strlit("index-v5");
    let n = cache.comps.len() as int;
    assert("tmp"@.len() == 3 && "content-v2"@.len() == 10 && "index-v5"@.len() == 8);
    assert forall|p: PathV, a: Seq<char>| under(p, child(cache, a)) implies p.comps.len() > n && p.comps[n] == a && under(p, cache) by {
        assert(p.comps.subrange(0, n + 1)[n] == child(cache, a).comps[n]);
        assert(p.comps.subrange(0, n) =~= p.comps.subrange(0, n + 1).subrange(0, n));
        assert(child(cache, a).comps.subrange(0, n) =~= cache.comps);
    }
    assert forall|p: PathV| under(p, tmp_dir(cache)) implies !under(p, content_dir(cache)) && !under(p, index_dir(cache)) && under(p, cache) by {
        assert(p.comps[n] == "tmp"@);
        if under(p, content_dir(cache)) { assert(p.comps[n] == "content-v2"@); }
        if under(p, index_dir(cache)) { assert(p.comps[n] == "index-v5"@); }
    }
    assert forall|p: PathV| under(p, content_dir(cache)) implies !under(p, index_dir(cache)) && under(p, cache) by {
        assert(p.comps[n] == "content-v2"@);
        if under(p, index_dir(cache)) { assert(p.comps[n] == "index-v5"@); }
    }
    assert forall|p: PathV| under(p, index_dir(cache)) implies !under(p, content_dir(cache)) && under(p, cache) by {
        assert(p.comps[n] == "index-v5"@);
        if under(p, content_dir(cache)) { assert(p.comps[n] == "content-v2"@); }
    }
}
/// the content path of `s` lies in the content area and its relative part is content_rel(s)
pub proof fn lemma_content_path_rel(cache: PathV, s: SriV)
    ensures
        under(content_path_spec(cache, s), content_dir(cache)),
        rel_to(content_path_spec(cache, s), content_dir(cache)) == content_rel(s),
        content_path_spec(cache, s).comps.len() == cache.comps.len() + 5,
        parent_of(content_path_spec(cache, s)).comps.len() == cache.comps.len() + 4,
{
    let d = content_dir(cache).comps; let r = content_rel(s);
    assert((d + r).subrange(0, d.len() as int) =~= d);
    assert((d + r).subrange(d.len() as int, (d + r).len() as int) =~= r);
}
/// states that differ from a content_ok state only inside cache/tmp are content_ok
pub proof fn lemma_only_tmp_keeps_content_ok(pre: World, post: World, cache: PathV)
    requires only_under(pre, post, tmp_dir(cache)), content_ok(pre.fs, cache)
    ensures content_ok(post.fs, cache), forall|i: int| pre.hist.len() <= i < post.hist.len() ==> content_ok(#[trigger] post.hist[i], cache)
{
    lemma_cache_areas_disjoint(cache);
    assert forall|i: int| pre.hist.len() <= i < post.hist.len() implies content_ok(#[trigger] post.hist[i], cache) by {
        let st = post.hist[i];
        assert(files_same_outside(pre.fs, st, tmp_dir(cache)));
        assert forall|p: PathV| #[trigger] st.files.contains_key(p) && under(p, content_dir(cache)) implies data_ok(rel_to(p, content_dir(cache)), st.files[p]) by {
            assert(!under(p, tmp_dir(cache)));
            assert(pre.fs.files.contains_key(p));
        }
    }
    assert forall|p: PathV| #[trigger] post.fs.files.contains_key(p) && under(p, content_dir(cache)) implies data_ok(rel_to(p, content_dir(cache)), post.fs.files[p]) by {
        assert(!under(p, tmp_dir(cache)));
        assert(pre.fs.files.contains_key(p));
    }
}
/// states that differ from `mid` only inside <cache>/tmp keep the content area, the index
/// area and everything outside the cache as they were
pub proof fn lemma_tmp_states(cache: PathV)
    ensures
        forall|mid: Fs, st: Fs| #[trigger] files_same_outside(mid, st, tmp_dir(cache)) ==>
            (content_ok(mid, cache) ==> content_ok(st, cache))
            && same_under(mid, st, index_dir(cache)) && same_under(mid, st, content_dir(cache))
            && files_same_outside(mid, st, cache),
        forall|mid: Fs, st: Fs, t: PathV| #[trigger] same_except(mid, st, t) && under(t, tmp_dir(cache)) ==> files_same_outside(mid, st, tmp_dir(cache)),
{
    lemma_cache_areas_disjoint(cache);
    assert forall|mid: Fs, st: Fs| #[trigger] files_same_outside(mid, st, tmp_dir(cache)) implies
        (content_ok(mid, cache) ==> content_ok(st, cache)) && same_under(mid, st, index_dir(cache)) && same_under(mid, st, content_dir(cache)) && files_same_outside(mid, st, cache) by {
        if content_ok(mid, cache) {
            assert forall|p: PathV| #[trigger] st.files.contains_key(p) && under(p, content_dir(cache)) implies data_ok(rel_to(p, content_dir(cache)), st.files[p]) by {
                assert(!under(p, tmp_dir(cache))); assert(mid.files.contains_key(p));
            }
        }
    }
}
