# offline setup: builds the extractor from the vendored crates under extractor/vendor
setup:
	cd extractor && CARGO_NET_OFFLINE=true cargo build --release --offline
	mkdir -p .build evidence replays
.PHONY: setup

# refresh baseline, evidence (from /repo itself) and MANIFEST before committing
refresh:
	./check all --tier thorough --update-baseline
	-./check all
	python3 lib/mkmanifest.py
.PHONY: refresh
