# offline setup: builds the extractor from the vendored crates under extractor/vendor
setup:
	cd extractor && CARGO_NET_OFFLINE=true cargo build --release --offline
	mkdir -p .build evidence replays
.PHONY: setup
