pub mod pin {
    use vstd::prelude::*;
    /// ASSUMED: Pin is a transparent wrapper; `Pin::new(&mut x)` is `&mut x`
    pub struct Pin<P> { pub pointer: P }
    impl<P> Pin<P> {
        pub fn new(pointer: P) -> (r: Pin<P>) ensures r.pointer == pointer { Pin { pointer } }
    }
}
pub mod task {
    use vstd::prelude::*;
    pub enum Poll<T> { Ready(T), Pending }
    #[verifier::external_body]
    pub struct Context<'a> { c: &'a u8 }
}
pub mod sync {
    use vstd::prelude::*;
    #[verifier::external_body]
    #[verifier::reject_recursive_types(T)]
    pub struct Mutex<T> { t: T }
}
