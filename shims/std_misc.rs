pub mod pin {
    use vstd::prelude::*;
    /// ASSUMED: Pin is a transparent wrapper; `Pin::new(&mut x)` is `&mut x`
    pub struct Pin<P> { pub pointer: P }
    impl<P> Pin<P> {
        pub fn new(pointer: P) -> (r: Pin<P>) ensures r.pointer == pointer { Pin { pointer } }
    }
}
pub mod task {
    use vstd::prelude::*;
    pub enum Poll<T> { Ready(T), Pending }
    #[verifier::external_body]
    pub struct Context<'a> { c: &'a u8 }
}
pub mod sync {
    use vstd::prelude::*;
    #[verifier::external_body]
    #[verifier::reject_recursive_types(T)]
    pub struct Mutex<T> { t: T }
}
pub mod os {
    pub mod unix { pub mod fs {
        use vstd::prelude::*;
        use crate::spec::*;
        /// symlink(2): creates a symbolic link at `link` holding the text of `target` verbatim;
        /// fails (nothing changes) if anything exists at `link`
        #[verifier::external_body]
        pub fn symlink<A: crate::shims::std::path::PathArg, B: crate::shims::std::path::PathArg>(target: A, link: B, Tracked(w): Tracked<&mut World>) -> (r: crate::shims::std::io::Result<()>)
            ensures
                old(w).healthy == final(w).healthy, world_wf(*old(w)) ==> world_wf(*final(w)), hist_ext(*old(w), *final(w)),
                r is Err ==> final(w).fs == old(w).fs && final(w).hist == old(w).hist,
                r is Ok ==> !exists_at(old(w).fs, link.pathv())
                    && final(w).fs == (Fs { links: old(w).fs.links.insert(link.pathv(), target.pathv()), ..old(w).fs })
                    && final(w).hist == old(w).hist.push(final(w).fs),
                old(w).healthy && !exists_at(old(w).fs, link.pathv()) && old(w).fs.dirs.contains(parent_of(link.pathv())) ==> r is Ok,
        { unimplemented!() }
        /// st_dev / st_ino etc.: values unconstrained
        pub trait MetadataExt { fn dev(&self) -> u64; fn ino(&self) -> u64; fn mode(&self) -> u32; fn size(&self) -> u64; }
        impl MetadataExt for crate::shims::std::fs::Metadata {
            #[verifier::external_body] fn dev(&self) -> u64 { unimplemented!() }
            #[verifier::external_body] fn ino(&self) -> u64 { unimplemented!() }
            #[verifier::external_body] fn mode(&self) -> u32 { unimplemented!() }
            #[verifier::external_body] fn size(&self) -> u64 { unimplemented!() }
        }
    } }
}
pub mod collections {
    use vstd::prelude::*;
    pub use ::std::collections::HashMap;
    /// ASSUMED: a HashSet collected from an iterator keeps the FIRST of any two elements
    /// that are equal under the element's `PartialEq`; its iteration order is unspecified.
    #[verifier::external_body]
    #[verifier::accept_recursive_types(T)]
    pub struct HashSet<T> { v: Vec<T> }
    impl<T> View for HashSet<T> { type V = Seq<T>; uninterp spec fn view(&self) -> Seq<T>; }
    /// the equality (PartialEq + a consistent Hash) the element type gives its HashSet
    pub trait SpecEq { spec fn spec_eq(&self, other: &Self) -> bool; }
    /// the elements of the set obtained by inserting `s` front to back, in the set's (unspecified
    /// but, for one call, fixed) iteration order
    pub uninterp spec fn hs_items<T>(s: Seq<T>) -> Seq<T>;
    pub open spec fn first_occ<T: SpecEq>(s: Seq<T>, i: int) -> bool {
        0 <= i < s.len() && forall|k: int| 0 <= k < i ==> !(#[trigger] s[k]).spec_eq(&s[i])
    }
    /// ASSUMED (HashSet::insert keeps the element already present): the set holds exactly the
    /// first occurrence of every equivalence class, each once
    #[verifier::external_body]
    pub broadcast proof fn axiom_hs_items<T: SpecEq>(s: Seq<T>)
        ensures
            #![trigger hs_items(s)]
            forall|j: int| 0 <= j < hs_items(s).len() ==> exists|i: int| first_occ(s, i) && (#[trigger] hs_items(s)[j]) == s[i],
            forall|i: int| #![trigger first_occ(s, i)] first_occ(s, i) ==> exists|j: int| 0 <= j < hs_items(s).len() && #[trigger] hs_items(s)[j] == s[i],
            forall|j1: int, j2: int| 0 <= j1 < j2 < hs_items(s).len() ==> !(#[trigger] hs_items(s)[j1].spec_eq(&hs_items(s)[j2])),
    {}
    /// what holds for every inserted element holds for every element of the set
    pub proof fn lemma_hs_all<T: SpecEq>(s: Seq<T>, p: spec_fn(T) -> bool)
        requires forall|k: int| 0 <= k < s.len() ==> p(#[trigger] s[k]),
        ensures forall|j: int| 0 <= j < hs_items(s).len() ==> p(#[trigger] hs_items(s)[j]),
    {
        axiom_hs_items(s);
        assert forall|j: int| 0 <= j < hs_items(s).len() implies p(#[trigger] hs_items(s)[j]) by {
            let i = choose|i: int| first_occ(s, i) && hs_items(s)[j] == s[i];
        }
    }
    pub open spec fn hashset_from<T>(set: HashSet<T>, s: Seq<T>) -> bool { set@ == hs_items(s) }
    impl<T> crate::shims::iter::IntoIterShim<T> for HashSet<T> {
        #[verifier::external_body]
        fn into_iter_(self) -> (r: crate::shims::iter::Iter<T>) ensures r@.items == self@, !r@.endless { unimplemented!() }
    }
}
pub mod hash {
    use vstd::prelude::*;
    pub trait Hash { }
    pub trait Hasher { }
}
pub mod time {
    use vstd::prelude::*;
    /// a clock reading; `nanos` = nanoseconds since the Unix epoch (negative: before it)
    #[verifier::external_body]
    pub struct SystemTime { t: u8 }
    impl View for SystemTime { type V = int; uninterp spec fn view(&self) -> int; }
    /// `sampled(t)`: t is a value the wall clock actually returned during this call
    pub uninterp spec fn sampled(t: int) -> bool;
    pub const UNIX_EPOCH: Epoch = Epoch { };
    pub struct Epoch { }
    #[verifier::external_body]
    pub struct Duration { d: u8 }
    impl View for Duration { type V = int; uninterp spec fn view(&self) -> int; }
    #[verifier::external_body]
    pub struct SystemTimeError { d: u8 }
    #[verifier::external]
    impl ::std::fmt::Debug for SystemTimeError { fn fmt(&self, f: &mut ::std::fmt::Formatter<'_>) -> ::std::fmt::Result { Ok(()) } }
    impl SystemTime {
        #[verifier::external_body]
        /// ASSUMED: the wall clock is not before 1970 (otherwise `now()` in index.rs panics)
        pub fn now() -> (r: SystemTime) ensures sampled(r@), r@ >= 0 { unimplemented!() }
        #[verifier::external_body]
        pub fn duration_since(&self, e: Epoch) -> (r: ::std::result::Result<Duration, SystemTimeError>)
            ensures self@ >= 0 <==> r is Ok, r is Ok ==> r->Ok_0@ == self@
        { unimplemented!() }
    }
    impl Duration {
        #[verifier::external_body]
        pub fn as_millis(&self) -> (r: u128) requires self@ >= 0 ensures r == self@ / 1_000_000 { unimplemented!() }
        #[verifier::external_body]
        pub fn as_secs(&self) -> (r: u64) requires self@ >= 0 ensures r == self@ / 1_000_000_000 { unimplemented!() }
        #[verifier::external_body]
        pub fn as_micros(&self) -> (r: u128) requires self@ >= 0 ensures r == self@ / 1_000 { unimplemented!() }
        #[verifier::external_body]
        pub fn as_nanos(&self) -> (r: u128) requires self@ >= 0 ensures r == self@ { unimplemented!() }
    }
}
pub mod iter {
    pub use crate::shims::iter::once;
}
