pub mod pin {
    use vstd::prelude::*;
    /// ASSUMED: Pin is a transparent wrapper; `Pin::new(&mut x)` is `&mut x`
    pub struct Pin<P> { pub pointer: P }
    impl<P> Pin<P> {
        pub fn new(pointer: P) -> (r: Pin<P>) ensures r.pointer == pointer { Pin { pointer } }
    }
}
pub mod task {
    use vstd::prelude::*;
    pub enum Poll<T> { Ready(T), Pending }
    #[verifier::external_body]
    pub struct Context<'a> { c: &'a u8 }
}
pub mod sync {
    use vstd::prelude::*;
    /// std::sync::Mutex, used by the async writer to hold its state behind `Pin<&mut Self>`.
    /// ASSUMED / MODEL: the units that lock it hold `&mut self` (after R21), so `lock()` is given
    /// the semantics of `Mutex::get_mut`: exclusive access to the protected value, never
    /// poisoned (a poisoned mutex needs a panic while it is held, which C20 excludes for the
    /// verified units).  Contention between threads is not modelled (C07).
    #[verifier::external_body]
    #[verifier::reject_recursive_types(T)]
    pub struct Mutex<T> { t: T }
    impl<T> View for Mutex<T> { type V = T; uninterp spec fn view(&self) -> T; }
    pub struct PoisonError { pub p: u8 }
    impl ::std::fmt::Debug for PoisonError { #[verifier::external_body] fn fmt(&self, f: &mut ::std::fmt::Formatter<'_>) -> ::std::fmt::Result { Ok(()) } }
    /// std::sync::Arc: a transparent wrapper in the model
    pub use ::std::sync::Arc;
    /// std::sync::OnceLock: WEAK - the stored value may come from any earlier initialisation in
    /// this process, so nothing is known about what `get_or_init` returns
    #[verifier::external_body]
    #[verifier::reject_recursive_types(T)]
    pub struct OnceLock<T> { t: ::std::marker::PhantomData<T> }
    impl<T> OnceLock<T> {
        #[verifier::external_body]
        pub const fn new() -> (r: OnceLock<T>) { OnceLock { t: ::std::marker::PhantomData } }
        #[verifier::external_body]
        pub fn get_or_init<F: FnOnce() -> T>(&self, f: F) -> (r: &T) requires call_requires(f, ()) { unimplemented!() }
        #[verifier::external_body]
        pub fn get(&self) -> (r: Option<&T>) { unimplemented!() }
    }
    impl<T> Mutex<T> {
        #[verifier::external_body]
        pub fn new(t: T) -> (r: Mutex<T>) ensures r@ == t { unimplemented!() }
        #[verifier::external_body]
        pub fn lock(&mut self) -> (r: Result<&mut T, PoisonError>)
            ensures r is Ok, *r->Ok_0 == old(self)@, final(self)@ == *final(r->Ok_0)
        { unimplemented!() }
    }
}
pub mod ffi {
    use vstd::prelude::*;
    /// an OS string (a path component); nothing is known about its text
    #[verifier::external_body]
    pub struct OsStr { s: u8 }
    #[verifier::external_body]
    pub struct OsString { s: u8 }
    impl OsStr {
        #[verifier::external_body]
        pub fn to_str(&self) -> (r: Option<&str>) { unimplemented!() }
        #[verifier::external_body]
        pub fn to_string_lossy(&self) -> (r: String) { unimplemented!() }
        #[verifier::external_body]
        pub fn to_os_string(&self) -> (r: OsString) { unimplemented!() }
        #[verifier::external_body]
        pub fn len(&self) -> (r: usize) { unimplemented!() }
    }
}
pub mod os {
    pub mod unix { pub mod fs {
        use vstd::prelude::*;
        use crate::spec::*;
        /// symlink(2): creates a symbolic link at `link` holding the text of `target` verbatim;
        /// fails (nothing changes) if anything exists at `link`
        #[verifier::external_body]
        pub fn symlink<A: crate::shims::std::path::PathArg, B: crate::shims::std::path::PathArg>(target: A, link: B, Tracked(w): Tracked<&mut World>) -> (r: crate::shims::std::io::Result<()>)
            ensures
                old(w).healthy == final(w).healthy, world_wf(*old(w)) ==> world_wf(*final(w)), hist_ext(*old(w), *final(w)),
                r is Err ==> final(w).fs == old(w).fs && final(w).hist == old(w).hist,
                r is Ok ==> !exists_at(old(w).fs, link.pathv())
                    && final(w).fs == (Fs { links: old(w).fs.links.insert(link.pathv(), target.pathv()), ..old(w).fs })
                    && final(w).hist == old(w).hist.push(final(w).fs),
                old(w).healthy && !exists_at(old(w).fs, link.pathv()) && old(w).fs.dirs.contains(parent_of(link.pathv())) ==> r is Ok,
        { unimplemented!() }
        /// st_dev / st_ino etc.: values unconstrained
        pub trait MetadataExt { fn dev(&self) -> u64; fn ino(&self) -> u64; fn mode(&self) -> u32; fn size(&self) -> u64; }
        impl MetadataExt for crate::shims::std::fs::Metadata {
            #[verifier::external_body] fn dev(&self) -> u64 { unimplemented!() }
            #[verifier::external_body] fn ino(&self) -> u64 { unimplemented!() }
            #[verifier::external_body] fn mode(&self) -> u32 { unimplemented!() }
            #[verifier::external_body] fn size(&self) -> u64 { unimplemented!() }
        }
    } }
}
pub mod collections {
    use vstd::prelude::*;
    /// std::collections::HashMap.  ASSUMED contracts: the map is viewed as Map<K, V> over the
    /// keys' spec equality; iteration order is unspecified (any sequence whose elements are exactly
    /// the map's values / pairs, each once)
    #[verifier::external_body]
    #[verifier::reject_recursive_types(K)]
    #[verifier::reject_recursive_types(V)]
    pub struct HashMap<K, V> { k: Vec<K>, v: Vec<V> }
    impl<K, V> View for HashMap<K, V> { type V = Map<K, V>; uninterp spec fn view(&self) -> Map<K, V>; }
    #[verifier::external_body]
    #[verifier::reject_recursive_types(K)]
    #[verifier::reject_recursive_types(V)]
    pub struct Entry<'a, K, V> { m: &'a mut HashMap<K, V>, k: K }
    impl<K, V> HashMap<K, V> {
        #[verifier::external_body]
        pub fn new() -> (r: Self) ensures r@ == Map::<K, V>::empty() { unimplemented!() }
        #[verifier::external_body]
        pub fn with_capacity(n: usize) -> (r: Self) ensures r@ == Map::<K, V>::empty() { unimplemented!() }
        #[verifier::external_body]
        pub fn insert(&mut self, k: K, v: V) -> (r: Option<V>)
            ensures final(self)@ == old(self)@.insert(k, v), r == (if old(self)@.contains_key(k) { Some(old(self)@[k]) } else { None::<V> })
        { unimplemented!() }
        /// the borrowed form of the key is not related to K here: nothing is known about which
        /// entry is found, only that it is one of the map's values
        #[verifier::external_body]
        pub fn get<Q: ?Sized>(&self, k: &Q) -> (r: Option<&V>)
            ensures r is Some ==> exists|kk: K| #[trigger] self@.contains_key(kk) && self@[kk] == *r->Some_0
        { unimplemented!() }
        #[verifier::external_body]
        pub fn contains_key<Q: ?Sized>(&self, k: &Q) -> (r: bool) { unimplemented!() }
        #[verifier::external_body]
        pub fn remove<Q: ?Sized>(&mut self, k: &Q) -> (r: Option<V>)
            ensures final(self)@.submap_of(old(self)@)
        { unimplemented!() }
        #[verifier::external_body]
        pub fn len(&self) -> (r: usize) { unimplemented!() }
        #[verifier::external_body]
        pub fn is_empty(&self) -> (r: bool)
            ensures r ==> forall|k: K| !self@.contains_key(k)
        { unimplemented!() }
        #[verifier::external_body]
        pub fn entry(&mut self, k: K) -> (r: Entry<'_, K, V>) { unimplemented!() }
        #[verifier::external_body]
        pub fn into_values(self) -> (r: crate::shims::iter::Iter<V>)
            /*@PARTIAL*/ ensures !r@.endless,
                forall|i: int| 0 <= i < r@.items.len() ==> exists|k: K| #[trigger] self@.contains_key(k) && self@[k] == #[trigger] r@.items[i],
                forall|k: K| #[trigger] self@.contains_key(k) ==> exists|i: int| 0 <= i < r@.items.len() && #[trigger] r@.items[i] == self@[k],
        { unimplemented!() }
        #[verifier::external_body]
        pub fn values(&self) -> (r: crate::shims::iter::Iter<&V>) ensures !r@.endless { unimplemented!() }
        #[verifier::external_body]
        pub fn keys(&self) -> (r: crate::shims::iter::Iter<&K>) ensures !r@.endless { unimplemented!() }
        #[verifier::external_body]
        pub fn into_keys(self) -> (r: crate::shims::iter::Iter<K>) ensures !r@.endless { unimplemented!() }
    }
    impl<'a, K, V> Entry<'a, K, V> {
        #[verifier::external_body]
        pub fn or_insert_with<F: FnOnce() -> V>(self, f: F) -> (r: &'a mut V) requires call_requires(f, ()) { unimplemented!() }
        #[verifier::external_body]
        pub fn or_insert(self, v: V) -> (r: &'a mut V) { unimplemented!() }
    }
    impl<K, V> crate::shims::iter::IntoIterShim<(K, V)> for HashMap<K, V> {
        #[verifier::external_body]
        fn into_iter_(self) -> (r: crate::shims::iter::Iter<(K, V)>) ensures !r@.endless { unimplemented!() }
    }
    impl<K, V> crate::shims::iter::ToIter<(K, V)> for HashMap<K, V> {
        #[verifier::external_body]
        fn to_iter(self) -> (r: crate::shims::iter::Iter<(K, V)>) ensures !r@.endless { unimplemented!() }
    }
    /// ASSUMED: a HashSet collected from an iterator keeps the FIRST of any two elements
    /// that are equal under the element's `PartialEq`; its iteration order is unspecified.
    #[verifier::external_body]
    #[verifier::accept_recursive_types(T)]
    pub struct HashSet<T> { v: Vec<T> }
    impl<T> View for HashSet<T> { type V = Seq<T>; uninterp spec fn view(&self) -> Seq<T>; }
    /// the equality (PartialEq + a consistent Hash) the element type gives its HashSet
    pub trait SpecEq { spec fn spec_eq(&self, other: &Self) -> bool; }
    /// the elements of the set obtained by inserting `s` front to back, in the set's (unspecified
    /// but, for one call, fixed) iteration order
    pub uninterp spec fn hs_items<T>(s: Seq<T>) -> Seq<T>;
    pub open spec fn first_occ<T: SpecEq>(s: Seq<T>, i: int) -> bool {
        0 <= i < s.len() && forall|k: int| 0 <= k < i ==> !(#[trigger] s[k]).spec_eq(&s[i])
    }
    /// ASSUMED (HashSet::insert keeps the element already present): the set holds exactly the
    /// first occurrence of every equivalence class, each once
    #[verifier::external_body]
    pub broadcast proof fn axiom_hs_items<T: SpecEq>(s: Seq<T>)
        ensures
            #![trigger hs_items(s)]
            forall|j: int| 0 <= j < hs_items(s).len() ==> exists|i: int| first_occ(s, i) && (#[trigger] hs_items(s)[j]) == s[i],
            forall|i: int| #![trigger first_occ(s, i)] first_occ(s, i) ==> exists|j: int| 0 <= j < hs_items(s).len() && #[trigger] hs_items(s)[j] == s[i],
            forall|j1: int, j2: int| 0 <= j1 < j2 < hs_items(s).len() ==> !(#[trigger] hs_items(s)[j1].spec_eq(&hs_items(s)[j2])),
    {}
    /// what holds for every inserted element holds for every element of the set
    pub proof fn lemma_hs_all<T: SpecEq>(s: Seq<T>, p: spec_fn(T) -> bool)
        requires forall|k: int| 0 <= k < s.len() ==> p(#[trigger] s[k]),
        ensures forall|j: int| 0 <= j < hs_items(s).len() ==> p(#[trigger] hs_items(s)[j]),
    {
        axiom_hs_items(s);
        assert forall|j: int| 0 <= j < hs_items(s).len() implies p(#[trigger] hs_items(s)[j]) by {
            let i = choose|i: int| first_occ(s, i) && hs_items(s)[j] == s[i];
        }
    }
    pub open spec fn hashset_from<T>(set: HashSet<T>, s: Seq<T>) -> bool { set@ == hs_items(s) }
    impl<T> crate::shims::iter::IntoIterShim<T> for HashSet<T> {
        #[verifier::external_body]
        fn into_iter_(self) -> (r: crate::shims::iter::Iter<T>) ensures r@.items == self@, !r@.endless { unimplemented!() }
    }
}
pub mod hash {
    use vstd::prelude::*;
    pub trait Hash { }
    pub trait Hasher { }
}
pub mod time {
    use vstd::prelude::*;
    /// a clock reading; `nanos` = nanoseconds since the Unix epoch (negative: before it)
    #[verifier::external_body]
    pub struct SystemTime { t: u8 }
    impl View for SystemTime { type V = int; uninterp spec fn view(&self) -> int; }
    /// `sampled(t)`: t is a value the wall clock actually returned during this call
    pub uninterp spec fn sampled(t: int) -> bool;
    pub const UNIX_EPOCH: Epoch = Epoch { };
    pub struct Epoch { }
    #[verifier::external_body]
    pub struct Duration { d: u8 }
    impl View for Duration { type V = int; uninterp spec fn view(&self) -> int; }
    #[verifier::external_body]
    pub struct SystemTimeError { d: u8 }
    #[verifier::external]
    impl ::std::fmt::Debug for SystemTimeError { fn fmt(&self, f: &mut ::std::fmt::Formatter<'_>) -> ::std::fmt::Result { Ok(()) } }
    /// monotonic clock (values unconstrained)
    #[verifier::external_body]
    pub struct Instant { t: u8 }
    impl Instant {
        #[verifier::external_body]
        pub fn now() -> (r: Instant) { unimplemented!() }
        #[verifier::external_body]
        pub fn elapsed(&self) -> (r: Duration) { unimplemented!() }
    }
    impl SystemTime {
        #[verifier::external_body]
        /// ASSUMED: the wall clock is not before 1970 (otherwise `now()` in index.rs panics)
        pub fn now() -> (r: SystemTime) ensures sampled(r@), r@ >= 0 { unimplemented!() }
        #[verifier::external_body]
        pub fn duration_since(&self, e: Epoch) -> (r: ::std::result::Result<Duration, SystemTimeError>)
            ensures self@ >= 0 <==> r is Ok, r is Ok ==> r->Ok_0@ == self@
        { unimplemented!() }
    }
    impl Duration {
        #[verifier::external_body]
        pub fn as_millis(&self) -> (r: u128) requires self@ >= 0 ensures r == self@ / 1_000_000 { unimplemented!() }
        #[verifier::external_body]
        pub fn as_secs(&self) -> (r: u64) requires self@ >= 0 ensures r == self@ / 1_000_000_000 { unimplemented!() }
        #[verifier::external_body]
        pub fn as_micros(&self) -> (r: u128) requires self@ >= 0 ensures r == self@ / 1_000 { unimplemented!() }
        #[verifier::external_body]
        pub fn as_nanos(&self) -> (r: u128) requires self@ >= 0 ensures r == self@ { unimplemented!() }
    }
}
pub mod iter {
    pub use crate::shims::iter::once;
}
