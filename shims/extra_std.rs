// further std surface, mostly WEAK (enough for code that starts using it to be decided)
pub mod vecs {
    use vstd::prelude::*;
    /// `Vec::with_capacity(n)`: PANICS ("capacity overflow") when n * size_of::<T>() exceeds
    /// isize::MAX, and aborts the process when the allocation fails; the first is stated as a
    /// precondition (C20), the second is not modelled
    #[verifier::external_body]
    pub fn with_capacity<T>(n: usize) -> (r: Vec<T>)
        requires n <= 0x7fff_ffff_ffff_ffff, n * vstd::layout::size_of::<T>() <= 0x7fff_ffff_ffff_ffff
        ensures r@.len() == 0
    { unimplemented!() }
    #[verifier::external_body]
    pub fn string_with_capacity(n: usize) -> (r: String)
        requires n <= 0x7fff_ffff_ffff_ffff
        ensures r@.len() == 0
    { unimplemented!() }
}
