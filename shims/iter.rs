// ASSUMED CONTRACTS for std iterator adapters (R10/R11 route every iterator entry point
// here).  An iterator is viewed as the finite sequence of items it will yield plus a flag
// `endless`: after `items`, the last item repeats for ever (this is how a reader whose
// underlying read keeps failing behaves).  Consuming adapters (`collect`, `fold`, `for`)
// require `!endless` — that is the no-hang obligation.
// Adapter contracts are in "deterministic closure" style: if the closure's own (verified)
// contract determines its result as a spec function g of its argument, the result is the
// corresponding spec-level sequence function of g.
pub mod iter {
    use vstd::prelude::*;

    pub struct IterV<T> { pub items: Seq<T>, pub endless: bool }

    #[verifier::external_body]
    #[verifier::accept_recursive_types(T)]
    pub struct Iter<T> { v: Vec<T> }
    impl<T> View for Iter<T> { type V = IterV<T>; uninterp spec fn view(&self) -> IterV<T>; }

    /// filter_map with a spec function
    pub open spec fn fm<T, U>(s: Seq<T>, g: spec_fn(T) -> Option<U>) -> Seq<U> decreases s.len() {
        if s.len() == 0 { Seq::empty() }
        else if g(s.last()) is Some { fm(s.drop_last(), g).push(g(s.last())->Some_0) }
        else { fm(s.drop_last(), g) }
    }
    /// longest prefix all of whose elements satisfy p
    pub open spec fn tw<T>(s: Seq<T>, p: spec_fn(T) -> bool) -> Seq<T> decreases s.len() {
        if s.len() == 0 { Seq::empty() }
        else if tw(s.drop_last(), p).len() == s.len() - 1 && p(s.last()) { s }
        else { tw(s.drop_last(), p) }
    }
    /// map_while with a spec function: images of the longest prefix on which g is Some
    pub open spec fn mw<T, U>(s: Seq<T>, g: spec_fn(T) -> Option<U>) -> Seq<U> decreases s.len() {
        if s.len() == 0 { Seq::empty() }
        else if mw(s.drop_last(), g).len() == s.len() - 1 && g(s.last()) is Some { mw(s.drop_last(), g).push(g(s.last())->Some_0) }
        else { mw(s.drop_last(), g) }
    }
    pub open spec fn all_some<T, U>(s: Seq<T>, g: spec_fn(T) -> Option<U>) -> bool { forall|i: int| 0 <= i < s.len() ==> g(#[trigger] s[i]) is Some }
    pub open spec fn all_sat<T>(s: Seq<T>, p: spec_fn(T) -> bool) -> bool { forall|i: int| 0 <= i < s.len() ==> p(#[trigger] s[i]) }
    /// left fold (the last element is folded in last)
    pub open spec fn sfold<T, B>(s: Seq<T>, init: B, g: spec_fn(B, T) -> B) -> B decreases s.len() {
        if s.len() == 0 { init } else { g(sfold(s.drop_last(), init, g), s.last()) }
    }
    pub open spec fn smap<T, U>(s: Seq<T>, g: spec_fn(T) -> U) -> Seq<U> { Seq::new(s.len(), |i: int| g(s[i])) }

    pub trait FromIter<T>: Sized { spec fn from_seq(&self, s: Seq<T>) -> bool; }
    /// something `flat_map` can flatten
    pub trait IterLike<U> { spec fn iter_items(&self) -> Seq<U>; spec fn iter_endless(&self) -> bool; }
    impl<U> IterLike<U> for Iter<U> {
        open spec fn iter_items(&self) -> Seq<U> { self@.items }
        open spec fn iter_endless(&self) -> bool { self@.endless }
    }
    /// concatenation of a sequence of sequences
    pub open spec fn flat<U>(ss: Seq<Seq<U>>) -> Seq<U> decreases ss.len() {
        if ss.len() == 0 { Seq::empty() } else { flat(ss.drop_last()) + ss.last() }
    }
    /// filter with a spec predicate
    pub open spec fn filt<T>(s: Seq<T>, p: spec_fn(T) -> bool) -> Seq<T> decreases s.len() {
        if s.len() == 0 { Seq::empty() }
        else if p(s.last()) { filt(s.drop_last(), p).push(s.last()) }
        else { filt(s.drop_last(), p) }
    }
    pub proof fn lemma_filt<T>(s: Seq<T>, p: spec_fn(T) -> bool)
        ensures
            filt(s, p).len() <= s.len(),
            forall|i: int| 0 <= i < filt(s, p).len() ==> p(#[trigger] filt(s, p)[i]),
        decreases s.len()
    {
        if s.len() > 0 { lemma_filt(s.drop_last(), p); }
    }
    /// std::iter::once
    #[verifier::external_body]
    pub fn once<T>(t: T) -> (r: Iter<T>) ensures r@.items == seq![t], !r@.endless { unimplemented!() }
    impl<T> FromIter<T> for Vec<T> { open spec fn from_seq(&self, s: Seq<T>) -> bool { self@ == s } }
    impl<T> FromIter<T> for crate::shims::std::collections::HashSet<T> {
        open spec fn from_seq(&self, s: Seq<T>) -> bool { crate::shims::std::collections::hashset_from(*self, s) }
    }

    impl<T> Iter<T> {
        #[verifier::external_body]
        pub fn filter_map<U, F: FnMut(T) -> Option<U>>(self, f: F) -> (r: Iter<U>)
            requires forall|i: int| 0 <= i < self@.items.len() ==> call_requires(f, (#[trigger] self@.items[i],)),
            ensures
                r@.endless == self@.endless,
                forall|g: spec_fn(T) -> Option<U>| (forall|x: T, o: Option<U>| #[trigger] call_ensures(f, (x,), o) ==> o == g(x)) ==> r@.items == #[trigger] fm(self@.items, g),
        { unimplemented!() }
        #[verifier::external_body]
        pub fn take_while<P: FnMut(&T) -> bool>(self, p: P) -> (r: Iter<T>)
            requires forall|t: &T| call_requires(p, (t,)),
            ensures
                forall|g: spec_fn(T) -> bool| (forall|x: &T, o: bool| #[trigger] call_ensures(p, (x,), o) ==> o == g(*x)) ==>
                    r@.items == #[trigger] tw(self@.items, g),
                // it can only go on for ever if the source does and no item is ever rejected
                r@.endless ==> self@.endless && (forall|i: int| 0 <= i < self@.items.len() ==> call_ensures(p, (&#[trigger] self@.items[i],), true)),
        { unimplemented!() }
        #[verifier::external_body]
        pub fn map_while<U, F: FnMut(T) -> Option<U>>(self, f: F) -> (r: Iter<U>)
            requires forall|t: T| call_requires(f, (t,)),
            ensures
                forall|g: spec_fn(T) -> Option<U>| (forall|x: T, o: Option<U>| #[trigger] call_ensures(f, (x,), o) ==> o == g(x)) ==>
                    r@.items == #[trigger] mw(self@.items, g),
                r@.endless ==> self@.endless && (forall|i: int| 0 <= i < self@.items.len() ==> exists|u: U| call_ensures(f, (#[trigger] self@.items[i],), Some(u))),
        { unimplemented!() }
        #[verifier::external_body]
        pub fn map<U, F: FnMut(T) -> U>(self, f: F) -> (r: Iter<U>)
            requires forall|t: T| call_requires(f, (t,)),
            ensures
                r@.endless == self@.endless,
                forall|g: spec_fn(T) -> U| (forall|x: T, o: U| #[trigger] call_ensures(f, (x,), o) ==> o == g(x)) ==> r@.items == #[trigger] smap(self@.items, g),
                // relational form (the closure's result need not be a function of its argument)
                r@.items.len() == self@.items.len(),
                forall|i: int| 0 <= i < self@.items.len() ==> call_ensures(f, (self@.items[i],), #[trigger] r@.items[i]),
        { unimplemented!() }
        #[verifier::external_body]
        pub fn rev(self) -> (r: Iter<T>)
            requires !self@.endless
            ensures r@.items == self@.items.reverse(), !r@.endless
        { unimplemented!() }
        #[verifier::external_body]
        pub fn fold<B, F: FnMut(B, T) -> B>(self, init: B, f: F) -> (r: B)
            requires !self@.endless, forall|b: B, t: T| call_requires(f, (b, t)),
            ensures forall|g: spec_fn(B, T) -> B| (forall|b: B, t: T, o: B| #[trigger] call_ensures(f, (b, t), o) ==> o == g(b, t)) ==> r == #[trigger] sfold(self@.items, init, g),
        { unimplemented!() }
        // ---- adapters without a contract (results unconstrained): present so that code using
        // them still type-checks; nothing can be proved about what they return
        #[verifier::external_body]
        pub fn filter<P: FnMut(&T) -> bool>(self, p: P) -> (r: Iter<T>)
            requires forall|t: &T| call_requires(p, (t,)),
            ensures
                r@.endless == self@.endless,
                forall|g: spec_fn(T) -> bool| (forall|x: &T, o: bool| #[trigger] call_ensures(p, (x,), o) ==> o == g(*x)) ==> r@.items == #[trigger] filt(self@.items, g),
                // relational form: the predicate answered `true` for everything that is yielded
                forall|i: int| 0 <= i < r@.items.len() ==> call_ensures(p, (&#[trigger] r@.items[i],), true),
        { unimplemented!() }
        #[verifier::external_body]
        pub fn flat_map<U, I: IterLike<U>, F: FnMut(T) -> I>(self, f: F) -> (r: Iter<U>)
            requires forall|t: T| call_requires(f, (t,)),
            ensures
                forall|g: spec_fn(T) -> Seq<U>| (forall|x: T, o: I| #[trigger] call_ensures(f, (x,), o) ==> o.iter_items() == g(x) && !o.iter_endless()) ==>
                    r@.items == #[trigger] flat(smap(self@.items, g)) && r@.endless == self@.endless,
        { unimplemented!() }
        #[verifier::external_body]
        pub fn any<P: FnMut(T) -> bool>(&mut self, p: P) -> (r: bool)
            requires forall|t: T| call_requires(p, (t,)),
            ensures
                !old(self)@.endless && r ==> exists|i: int| 0 <= i < old(self)@.items.len() && call_ensures(p, (#[trigger] old(self)@.items[i],), true),
                !old(self)@.endless && !r ==> forall|i: int| 0 <= i < old(self)@.items.len() ==> call_ensures(p, (#[trigger] old(self)@.items[i],), false),
        { unimplemented!() }
        #[verifier::external_body]
        pub fn all<P: FnMut(T) -> bool>(&mut self, p: P) -> (r: bool)
            requires forall|t: T| call_requires(p, (t,)),
            ensures
                !old(self)@.endless && r ==> forall|i: int| 0 <= i < old(self)@.items.len() ==> call_ensures(p, (#[trigger] old(self)@.items[i],), true),
                !old(self)@.endless && !r ==> exists|i: int| 0 <= i < old(self)@.items.len() && call_ensures(p, (#[trigger] old(self)@.items[i],), false),
        { unimplemented!() }
        #[verifier::external_body]
        pub fn find<P: FnMut(&T) -> bool>(&mut self, p: P) -> (r: Option<T>)
            requires forall|t: &T| call_requires(p, (t,)),
            ensures
                !old(self)@.endless && r is Some ==> exists|i: int| 0 <= i < old(self)@.items.len() && #[trigger] old(self)@.items[i] == r->Some_0
                    && call_ensures(p, (&old(self)@.items[i],), true)
                    && forall|j: int| 0 <= j < i ==> call_ensures(p, (&#[trigger] old(self)@.items[j],), false),
                !old(self)@.endless && r is None ==> forall|i: int| 0 <= i < old(self)@.items.len() ==> call_ensures(p, (&#[trigger] old(self)@.items[i],), false),
        { unimplemented!() }
        #[verifier::external_body]
        pub fn last(self) -> (r: Option<T>)
            ensures !self@.endless ==> r == (if self@.items.len() > 0 { Some(self@.items.last()) } else { None::<T> })
        { unimplemented!() }
        #[verifier::external_body]
        pub fn count(self) -> (r: usize)
            ensures !self@.endless ==> r == self@.items.len()
        { unimplemented!() }
        #[verifier::external_body]
        pub fn skip(self, n: usize) -> (r: Iter<T>)
            ensures r@.endless == self@.endless,
                !self@.endless ==> r@.items == (if n <= self@.items.len() { self@.items.skip(n as int) } else { Seq::<T>::empty() })
        { unimplemented!() }
        #[verifier::external_body]
        pub fn take(self, n: usize) -> (r: Iter<T>)
            ensures !r@.endless,
                !self@.endless ==> r@.items == (if n <= self@.items.len() { self@.items.take(n as int) } else { self@.items })
        { unimplemented!() }
        #[verifier::external_body]
        pub fn chain(self, other: Iter<T>) -> (r: Iter<T>)
            ensures !self@.endless ==> r@.items == self@.items + other@.items && r@.endless == other@.endless
        { unimplemented!() }
        #[verifier::external_body]
        pub fn enumerate(self) -> (r: Iter<(usize, T)>)
            ensures r@.endless == self@.endless, r@.items.len() == self@.items.len(),
                forall|i: int| 0 <= i < self@.items.len() ==> (#[trigger] r@.items[i]).0 == i && r@.items[i].1 == self@.items[i]
        { unimplemented!() }
        #[verifier::external_body]
        pub fn for_each<F: FnMut(T)>(self, f: F) requires forall|t: T| call_requires(f, (t,)) { unimplemented!() }
        /// Iterator::next / StreamExt::next (after R2)
        // ---- further std adapters, WEAK: the result is some element of the sequence (or an
        // unconstrained value); enough to type-check code that starts using them
        #[verifier::external_body]
        pub fn max_by_key<B, F: FnMut(&T) -> B>(self, f: F) -> (r: Option<T>)
            requires forall|t: &T| call_requires(f, (t,))
            /*@PARTIAL*/ ensures r is Some ==> exists|i: int| 0 <= i < self@.items.len() && self@.items[i] == r->Some_0, r is None <==> self@.items.len() == 0
        { unimplemented!() }
        #[verifier::external_body]
        pub fn min_by_key<B, F: FnMut(&T) -> B>(self, f: F) -> (r: Option<T>)
            requires forall|t: &T| call_requires(f, (t,))
            /*@PARTIAL*/ ensures r is Some ==> exists|i: int| 0 <= i < self@.items.len() && self@.items[i] == r->Some_0, r is None <==> self@.items.len() == 0
        { unimplemented!() }
        #[verifier::external_body]
        pub fn max_by<F: FnMut(&T, &T) -> ::std::cmp::Ordering>(self, f: F) -> (r: Option<T>)
            requires forall|a: &T, b: &T| call_requires(f, (a, b))
            /*@PARTIAL*/ ensures r is Some ==> exists|i: int| 0 <= i < self@.items.len() && self@.items[i] == r->Some_0
        { unimplemented!() }
        #[verifier::external_body]
        pub fn min_by<F: FnMut(&T, &T) -> ::std::cmp::Ordering>(self, f: F) -> (r: Option<T>)
            requires forall|a: &T, b: &T| call_requires(f, (a, b))
            /*@PARTIAL*/ ensures r is Some ==> exists|i: int| 0 <= i < self@.items.len() && self@.items[i] == r->Some_0
        { unimplemented!() }
        #[verifier::external_body]
        pub fn nth(&mut self, n: usize) -> (r: Option<T>)
            ensures !old(self)@.endless ==> r == (if n < old(self)@.items.len() { Some(old(self)@.items[n as int]) } else { None::<T> })
                && final(self)@.items == (if n < old(self)@.items.len() { old(self)@.items.skip(n + 1) } else { Seq::<T>::empty() }) && !final(self)@.endless
        { unimplemented!() }
        #[verifier::external_body]
        pub fn position<P: FnMut(T) -> bool>(&mut self, p: P) -> (r: Option<usize>)
            requires forall|t: T| call_requires(p, (t,)),
            ensures
                !old(self)@.endless && r is Some ==> r->Some_0 < old(self)@.items.len() && call_ensures(p, (old(self)@.items[r->Some_0 as int],), true)
                    && forall|j: int| 0 <= j < r->Some_0 ==> call_ensures(p, (#[trigger] old(self)@.items[j],), false),
                !old(self)@.endless && r is None ==> forall|i: int| 0 <= i < old(self)@.items.len() ==> call_ensures(p, (#[trigger] old(self)@.items[i],), false),
        { unimplemented!() }
        #[verifier::external_body]
        pub fn find_map<U, F: FnMut(T) -> Option<U>>(&mut self, f: F) -> (r: Option<U>)
            requires forall|t: T| call_requires(f, (t,)),
            ensures
                !old(self)@.endless && r is Some ==> exists|i: int| 0 <= i < old(self)@.items.len() && call_ensures(f, (#[trigger] old(self)@.items[i],), r)
                    && forall|j: int| 0 <= j < i ==> call_ensures(f, (#[trigger] old(self)@.items[j],), None::<U>),
                !old(self)@.endless && r is None ==> forall|i: int| 0 <= i < old(self)@.items.len() ==> call_ensures(f, (#[trigger] old(self)@.items[i],), None::<U>),
        { unimplemented!() }
        #[verifier::external_body]
        pub fn skip_while<P: FnMut(&T) -> bool>(self, p: P) -> (r: Iter<T>) requires forall|t: &T| call_requires(p, (t,)) { unimplemented!() }
        #[verifier::external_body]
        pub fn inspect<F: FnMut(&T)>(self, f: F) -> (r: Iter<T>) requires forall|t: &T| call_requires(f, (t,)) ensures r@ == self@ { unimplemented!() }
        #[verifier::external_body]
        pub fn zip<U>(self, other: Iter<U>) -> (r: Iter<(T, U)>)
            ensures !self@.endless && !other@.endless ==> !r@.endless
                && r@.items.len() == (if self@.items.len() <= other@.items.len() { self@.items.len() } else { other@.items.len() })
                && forall|i: int| 0 <= i < r@.items.len() ==> (#[trigger] r@.items[i]).0 == self@.items[i] && r@.items[i].1 == other@.items[i]
        { unimplemented!() }
        #[verifier::external_body]
        pub fn step_by(self, n: usize) -> (r: Iter<T>) { unimplemented!() }
        #[verifier::external_body]
        pub fn peekable(self) -> (r: Iter<T>) ensures r@ == self@ { unimplemented!() }
        #[verifier::external_body]
        pub fn fuse(self) -> (r: Iter<T>) ensures r@ == self@ { unimplemented!() }
        #[verifier::external_body]
        pub fn by_ref(&mut self) -> (r: &mut Iter<T>) { unimplemented!() }
        #[verifier::external_body]
        pub fn next(&mut self) -> (r: Option<T>)
            ensures
                final(self)@.endless == old(self)@.endless,
                old(self)@.items.len() == 0 ==> r is None && final(self)@ == old(self)@,
                old(self)@.items.len() > 0 ==> r == Some(old(self)@.items[0])
                    && (final(self)@.items == old(self)@.items.skip(1)
                        || (old(self)@.endless && old(self)@.items.len() == 1 && final(self)@.items == old(self)@.items)),
        { unimplemented!() }
        #[verifier::external_body]
        pub fn collect<C: FromIter<T>>(self) -> (r: C)
            requires !self@.endless
            ensures r.from_seq(self@.items)
        { unimplemented!() }
    }

    /// R20: what a `for` loop iterates over
    pub trait ToIter<T> { fn to_iter(self) -> Iter<T>; }
    impl<T> ToIter<T> for Iter<T> {
        fn to_iter(self) -> (r: Iter<T>) ensures r == self { self }
    }
    // some real std iterators (items unconstrained)
    impl<'a> ToIter<char> for ::std::str::Chars<'a> {
        #[verifier::external_body]
        fn to_iter(self) -> (r: Iter<char>) { unimplemented!() }
    }
    impl<'a, T> ToIter<&'a T> for ::std::slice::Iter<'a, T> {
        #[verifier::external_body]
        fn to_iter(self) -> (r: Iter<&'a T>) { unimplemented!() }
    }
    impl ToIter<usize> for ::std::ops::Range<usize> {
        #[verifier::external_body]
        fn to_iter(self) -> (r: Iter<usize>) { unimplemented!() }
    }
    impl<T> ToIter<T> for Vec<T> {
        #[verifier::external_body]
        fn to_iter(self) -> (r: Iter<T>) ensures r@.items == self@, !r@.endless { unimplemented!() }
    }
    impl<T> ToIter<T> for crate::shims::std::collections::HashSet<T> {
        #[verifier::external_body]
        fn to_iter(self) -> (r: Iter<T>) ensures r@.items == self@, !r@.endless { unimplemented!() }
    }
    impl<'a, T> ToIter<&'a T> for &'a Vec<T> {
        #[verifier::external_body]
        fn to_iter(self) -> (r: Iter<&'a T>) ensures r@.items.len() == self@.len(), forall|i: int| 0 <= i < self@.len() ==> *(#[trigger] r@.items[i]) == self@[i], !r@.endless { unimplemented!() }
    }
    impl<T> ToIter<T> for Option<T> {
        #[verifier::external_body]
        fn to_iter(self) -> (r: Iter<T>) ensures r@.items == (match self { Some(t) => seq![t], None => Seq::<T>::empty() }), !r@.endless { unimplemented!() }
    }
    /// R10: `.iter()` on a Vec / slice
    pub trait IterShim<T> { fn iter_(&self) -> Iter<&T>; }
    impl<T> IterShim<T> for Vec<T> {
        #[verifier::external_body]
        fn iter_(&self) -> (r: Iter<&T>) ensures r@.items.len() == self@.len(), forall|i: int| 0 <= i < self@.len() ==> *(#[trigger] r@.items[i]) == self@[i], !r@.endless { unimplemented!() }
    }
    impl<T> IterShim<T> for [T] {
        #[verifier::external_body]
        fn iter_(&self) -> (r: Iter<&T>) ensures r@.items.len() == self@.len(), forall|i: int| 0 <= i < self@.len() ==> *(#[trigger] r@.items[i]) == self@[i], !r@.endless { unimplemented!() }
    }
    /// R10: `.into_iter()` on a Vec
    pub trait IntoIterShim<T> { fn into_iter_(self) -> Iter<T>; }
    impl<T> IntoIterShim<T> for Vec<T> {
        #[verifier::external_body]
        fn into_iter_(self) -> (r: Iter<T>) ensures r@.items == self@, !r@.endless { unimplemented!() }
    }
}
