// ASSUMED specifications of real std functions that vstd does not specify
pub mod std_specs {
    use vstd::prelude::*;
    /// core: `impl<T> From<T> for T` is the identity
    pub assume_specification<T>[<T as From<T>>::from](t: T) -> (r: T) ensures r == t;
    #[verifier::external_trait_specification]
    pub trait ExFromStr: Sized {
        type ExternalTraitSpecificationFor: ::std::str::FromStr;
        type Err;
        fn from_str(s: &str) -> ::std::result::Result<Self, Self::Err>;
    }
    pub assume_specification<F>[str::parse](s: &str) -> (r: ::std::result::Result<F, <F as ::std::str::FromStr>::Err>)
        where F: ::std::str::FromStr,
        ensures call_ensures(F::from_str, (s,), r);
    pub assume_specification<T, F>[::std::option::Option::<T>::or_else](o: ::std::option::Option<T>, f: F) -> (r: ::std::option::Option<T>)
        where F: ::std::ops::FnOnce() -> ::std::option::Option<T> + ::std::marker::Destruct, T: ::std::marker::Destruct,
        requires o is None ==> call_requires(f, ()),
        ensures o is Some ==> r == o, o is None ==> call_ensures(f, (), r);
    pub assume_specification<T, E, F, O>[::std::result::Result::<T, E>::or_else](o: ::std::result::Result<T, E>, f: O) -> (r: ::std::result::Result<T, F>)
        where O: ::std::ops::FnOnce(E) -> ::std::result::Result<T, F> + ::std::marker::Destruct,
        requires o is Err ==> call_requires(f, (o->Err_0,)),
        ensures o is Ok ==> r is Ok && r->Ok_0 == o->Ok_0, o is Err ==> call_ensures(f, (o->Err_0,), r);
    pub assume_specification<'a>[<String as From<&'a str>>::from](s: &str) -> (r: String) ensures r@ == s@;
    pub assume_specification[<str as AsRef<str>>::as_ref](s: &str) -> (r: &str) ensures r@ == s@;
    pub assume_specification<T>[<[T] as AsRef<[T]>>::as_ref](s: &[T]) -> (r: &[T]) ensures r@ == s@;
    pub assume_specification<'a>[<String as PartialEq<&'a str>>::eq](a: &String, b: &&str) -> (r: bool) ensures r == (a@ == b@);
    pub assume_specification<'a>[<String as PartialEq<&'a str>>::ne](a: &String, b: &&str) -> (r: bool) ensures r == (a@ != b@);
    pub assume_specification<'a>[<&'a str as PartialEq<String>>::eq](a: &&'a str, b: &String) -> (r: bool) ensures r == (a@ == b@);
    pub assume_specification<'a>[<&'a str as PartialEq<String>>::ne](a: &&'a str, b: &String) -> (r: bool) ensures r == (a@ != b@);
    pub assume_specification[<String as PartialEq<str>>::eq](a: &String, b: &str) -> (r: bool) ensures r == (a@ == b@);
    pub assume_specification[<String as PartialEq<str>>::ne](a: &String, b: &str) -> (r: bool) ensures r == (a@ != b@);
    pub assume_specification[<str as PartialEq<String>>::eq](a: &str, b: &String) -> (r: bool) ensures r == (a@ == b@);
    pub assume_specification[<str as PartialEq<String>>::ne](a: &str, b: &String) -> (r: bool) ensures r == (a@ != b@);
    pub assume_specification[String::as_bytes](s: &String) -> (r: &[u8]) ensures r@ == crate::spec::utf8(s@);
    /// `drop` has no result and no effect on anything the contracts talk about (Drop impls are not modelled)
    pub assume_specification<T>[::std::mem::drop](_0: T) where T: ::std::marker::Destruct;
    pub assume_specification<T>[bool::then_some](b: bool, t: T) -> (r: ::std::option::Option<T>)
        where T: ::std::marker::Destruct,
        ensures r == (if b { Some(t) } else { None::<T> });
    pub assume_specification[String::len](s: &String) -> (r: usize) ensures r == crate::spec::utf8(s@).len();
    /// Vec::set_len (unsafe).  ASSUMED: the first min(old, new) elements are kept, the rest are
    /// unspecified.  NOT CHECKED: its safety precondition `new_len <= capacity` (vstd does not
    /// model capacity; `reserve` only specifies that the contents are unchanged).
    pub assume_specification<T, A: ::std::alloc::Allocator>[::std::vec::Vec::<T, A>::set_len](v: &mut ::std::vec::Vec<T, A>, n: usize)
        ensures final(v)@.len() == n, forall|i: int| 0 <= i < n && i < old(v)@.len() ==> final(v)@[i] == old(v)@[i];
}
