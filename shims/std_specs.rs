// ASSUMED specifications of real std functions that vstd does not specify
pub mod std_specs {
    use vstd::prelude::*;
    /// core: `impl<T> From<T> for T` is the identity
    pub assume_specification<T>[<T as From<T>>::from](t: T) -> (r: T) ensures r == t;
}
