// ASSUMED CONTRACT for reflink_copy::reflink: clones `from` to a *new* file `to`
// (fails if `to` exists); all-or-nothing
pub mod reflink_copy {
    use vstd::prelude::*;
    use crate::spec::*;
    use crate::shims::World;
    use crate::shims::std::path::PathArg;
    use crate::shims::std::io;
    #[verifier::external_body]
    pub fn reflink<A: PathArg, B: PathArg>(from: A, to: B, Tracked(w): Tracked<&mut World>) -> (r: io::Result<()>)
        ensures
            old(w).healthy == final(w).healthy,
            world_wf(*old(w)) ==> world_wf(*final(w)),
            r is Ok ==> readable(old(w).fs, from.pathv()) && !exists_at(old(w).fs, to.pathv())
                && final(w).fs == (Fs { files: old(w).fs.files.insert(to.pathv(), bytes_at(old(w).fs, from.pathv())), ..old(w).fs })
                && final(w).hist == old(w).hist.push(final(w).fs),
            r is Err ==> final(w).fs == old(w).fs && final(w).hist == old(w).hist,
    { unimplemented!() }
}
