// ASSUMED: after R2 (async fn -> fn, `.await` removed) every async-std / tokio file
// operation has the semantics of its std counterpart.
pub mod async_std {
    pub mod fs {
        pub use crate::shims::std::fs::{File, read, copy, remove_file, create_dir_all, OpenOptions, DirBuilder, metadata, remove_dir_all};
    }
    pub mod io {
        pub use crate::shims::std::io::BufReader;
    }
    pub mod task {
        use vstd::prelude::*;
        /// handle of a blocking task.  MODEL (rule R8): `spawn_blocking(|| BODY)` is rewritten to
        /// `spawned({ BODY })` - the task body runs to completion at the point where it is
        /// spawned and the handle holds its result; polling the handle yields Pending or that
        /// result.  What is dropped: the overlap in time between the blocking task and the
        /// polling task (the state machine is `Busy` for that whole time and only polls).
        #[verifier::external_body]
        #[verifier::accept_recursive_types(T)]
        pub struct JoinHandle<T> { t: ::std::marker::PhantomData<T> }
        impl<T> View for JoinHandle<T> { type V = T; uninterp spec fn view(&self) -> T; }
        #[verifier::external_body]
        pub fn spawned<T>(t: T) -> (r: JoinHandle<T>) ensures r@ == t { unimplemented!() }
        // @FLAVOUR !tokio
        pub type Joined<T> = T;
        /// `spawn_blocking(..).await`
        pub fn awaited<T>(t: T) -> (r: T) ensures r == t { t }
        impl<T> JoinHandle<T> {
            /// Future::poll of the handle (after R21)
            #[verifier::external_body]
            pub fn poll(&mut self, cx: &mut crate::shims::std::task::Context<'_>) -> (r: crate::shims::std::task::Poll<T>)
                ensures r is Ready ==> r->Ready_0 == old(self)@, final(self)@ == old(self)@
            { unimplemented!() }
        }
        // @ENDFLAVOUR
        // @FLAVOUR tokio
        pub struct JoinError { pub e: u8 }
        impl ::std::fmt::Debug for JoinError { #[verifier::external_body] fn fmt(&self, f: &mut ::std::fmt::Formatter<'_>) -> ::std::fmt::Result { Ok(()) } }
        /// tokio: a JoinError arises only if the task panicked or was aborted; the blocking
        /// bodies are verified not to panic and nothing aborts them: ASSUMED always Ok
        pub fn awaited<T>(t: T) -> (r: Result<T, JoinError>) ensures r == Ok::<T, JoinError>(t) { Ok(t) }
        impl<T> JoinHandle<T> {
            #[verifier::external_body]
            pub fn poll(&mut self, cx: &mut crate::shims::std::task::Context<'_>) -> (r: crate::shims::std::task::Poll<Result<T, JoinError>>)
                ensures r is Ready ==> r->Ready_0 == Ok::<T, JoinError>(old(self)@), final(self)@ == old(self)@
            { unimplemented!() }
        }
        // @ENDFLAVOUR
    }
}
pub mod futures {
    pub mod io {
        pub trait AsyncRead { }
        /// R2: `AsyncReadExt::read(&mut r, buf).await` becomes a blocking call
        pub trait AsyncReadExt {
            fn read(&mut self, buf: &mut [u8]) -> crate::shims::std::io::Result<usize>;
        }
        pub trait AsyncBufReadExt { }
        pub use crate::shims::write_trait::AsyncWrite;
        /// the extension methods of an AsyncWrite implementor live on the AsyncWrite shim itself;
        /// for the runtime's own File (== the std File shim after R2) they are the std Write methods
        pub use crate::shims::write_trait::Write as AsyncWriteExt;
    }
    pub mod stream { pub trait StreamExt { } }
    pub mod channel { pub mod oneshot {
        use vstd::prelude::*;
        /// futures::channel::oneshot.  MODEL: the two ends share an id; `chan_value(id)` is the
        /// value the receiver will yield (None: the sender was dropped without sending).  ASSUMED:
        /// `channel()` ids are fresh, so that `send` - which consumes the only sender - may
        /// reveal that value.
        #[verifier::external_body]
        #[verifier::reject_recursive_types(T)]
        pub struct Sender<T> { t: ::std::marker::PhantomData<T> }
        #[verifier::external_body]
        #[verifier::reject_recursive_types(T)]
        pub struct Receiver<T> { t: ::std::marker::PhantomData<T> }
        impl<T> View for Sender<T> { type V = int; uninterp spec fn view(&self) -> int; }
        impl<T> View for Receiver<T> { type V = int; uninterp spec fn view(&self) -> int; }
        pub uninterp spec fn chan_value<T>(id: int) -> Option<T>;
        #[verifier::external_body]
        pub fn channel<T>() -> (r: (Sender<T>, Receiver<T>)) ensures r.0@ == r.1@ { unimplemented!() }
        impl<T> Sender<T> {
            #[verifier::external_body]
            pub fn send(self, t: T) -> (r: Result<(), T>) ensures chan_value::<T>(self@) == Some(t) { unimplemented!() }
        }
    } }
    pub mod prelude { }
}

// @FLAVOUR tokio
pub mod tokio {
    pub mod fs {
        pub use crate::shims::std::fs::{File, read, copy, remove_file, create_dir_all, OpenOptions, DirBuilder, metadata, remove_dir_all};
    }
    pub mod io {
        use vstd::prelude::*;
        pub use crate::shims::std::io::{BufReader, Result};
        pub use crate::shims::futures::io::{AsyncRead, AsyncReadExt, AsyncBufReadExt, AsyncWrite, AsyncWriteExt};
        /// tokio::io::ReadBuf: a buffer of `cap` bytes whose first `filled.len()` bytes are filled
        #[verifier::external_body]
        pub struct ReadBuf<'a> { b: &'a mut [u8] }
        pub struct ReadBufV { pub filled: Seq<u8>, pub cap: nat }
        impl<'a> View for ReadBuf<'a> { type V = ReadBufV; uninterp spec fn view(&self) -> ReadBufV; }
        impl<'a> ReadBuf<'a> {
            #[verifier::external_body]
            pub fn filled(&self) -> (r: &[u8]) ensures r@ == self@.filled { unimplemented!() }
            #[verifier::external_body]
            pub fn remaining(&self) -> (r: usize) ensures r == self@.cap - self@.filled.len() { unimplemented!() }
        }
    }
    pub mod task {
        pub use crate::shims::async_std::task::{JoinHandle, JoinError};
    }
}
pub mod tokio_stream { pub mod wrappers { } }
// @ENDFLAVOUR
