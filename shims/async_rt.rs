// ASSUMED: after R2 (async fn -> fn, `.await` removed) every async-std / tokio file
// operation has the semantics of its std counterpart.
pub mod async_std {
    pub mod fs {
        use vstd::prelude::*;
        use crate::spec::*;
        use crate::shims::std::io;
        use crate::shims::std::path::PathArg;
        pub use crate::shims::std::fs::{File, read, read_to_string, copy, remove_file, remove_dir, create_dir_all, DirBuilder, metadata, remove_dir_all};
        use crate::shims::std::fs::{OpenMode, file_buffered, file_pending};
        /// the runtime's OpenOptions: as std's, but the handle it opens BUFFERS writes in user
        /// space until `flush` (see `file_buffered` in shims/std_fs.rs)
        #[verifier::external_body]
        pub struct OpenOptions { o: u8 }
        impl View for OpenOptions { type V = OpenMode; uninterp spec fn view(&self) -> OpenMode; }
        impl OpenOptions {
            #[verifier::external_body]
            pub fn new() -> (r: OpenOptions) ensures r@ == (OpenMode { read: false, write: false, append: false, create: false, truncate: false }) { unimplemented!() }
            #[verifier::external_body]
            pub fn read(&mut self, b: bool) -> (r: &mut OpenOptions) ensures r@ == (OpenMode { read: b, ..old(self)@ }), *final(r) == *final(self) { unimplemented!() }
            #[verifier::external_body]
            pub fn write(&mut self, b: bool) -> (r: &mut OpenOptions) ensures r@ == (OpenMode { write: b, ..old(self)@ }), *final(r) == *final(self) { unimplemented!() }
            #[verifier::external_body]
            pub fn append(&mut self, b: bool) -> (r: &mut OpenOptions) ensures r@ == (OpenMode { append: b, ..old(self)@ }), *final(r) == *final(self) { unimplemented!() }
            #[verifier::external_body]
            pub fn create(&mut self, b: bool) -> (r: &mut OpenOptions) ensures r@ == (OpenMode { create: b, ..old(self)@ }), *final(r) == *final(self) { unimplemented!() }
            #[verifier::external_body]
            pub fn truncate(&mut self, b: bool) -> (r: &mut OpenOptions) ensures r@ == (OpenMode { truncate: b, ..old(self)@ }), *final(r) == *final(self) { unimplemented!() }
            #[verifier::external_body]
            pub fn open<A: PathArg>(&self, p: A, Tracked(w): Tracked<&mut World>) -> (r: io::Result<File>)
                ensures
                    old(w).healthy == final(w).healthy,
                    world_wf(*old(w)) ==> world_wf(*final(w)),
                    hist_ext(*old(w), *final(w)),
                    r is Err ==> final(w).fs == old(w).fs && final(w).hist == old(w).hist,
                    r is Ok ==> {
                        let q = resolve(old(w).fs, p.pathv());
                        let existed = old(w).fs.files.contains_key(q);
                        let bytes0 = if existed && !self@.truncate { old(w).fs.files[q] } else { Seq::<u8>::empty() };
                        &&& (existed || self@.create)
                        &&& (self@.write || self@.append || (!self@.create && !self@.truncate))
                        &&& final(w).fs == (Fs { files: old(w).fs.files.insert(q, bytes0), ..old(w).fs })
                        &&& (final(w).fs == old(w).fs ==> final(w).hist == old(w).hist)
                        &&& (final(w).fs != old(w).fs ==> final(w).hist == old(w).hist.push(final(w).fs))
                        &&& r->Ok_0@.path == q && r->Ok_0@.content == bytes0 && r->Ok_0@.pos == 0 && r->Ok_0@.mode == self@ && (old(w).healthy ==> r->Ok_0@.reliable)
                        &&& bytes0.len() <= usize::MAX
                        &&& file_buffered(r->Ok_0) && file_pending(r->Ok_0) == Seq::<u8>::empty()
                    },
                    old(w).healthy && (self@.write || self@.append) && self@.create && old(w).fs.dirs.contains(parent_of(p.pathv()))
                        && !old(w).fs.dirs.contains(p.pathv()) && !old(w).fs.links.contains_key(p.pathv()) ==> r is Ok,
            { unimplemented!() }
        }
    }
    pub mod io {
        pub use crate::shims::std::io::{BufReader, copy};
    }
    pub mod task {
        use vstd::prelude::*;
        /// handle of a blocking task.  MODEL (rule R8): `spawn_blocking(|| BODY)` is rewritten to
        /// `spawned({ BODY })` - the task body runs to completion at the point where it is
        /// spawned and the handle holds its result; polling the handle yields Pending or that
        /// result.  What is dropped: the overlap in time between the blocking task and the
        /// polling task (the state machine is `Busy` for that whole time and only polls).
        #[verifier::external_body]
        #[verifier::accept_recursive_types(T)]
        pub struct JoinHandle<T> { t: ::std::marker::PhantomData<T> }
        impl<T> View for JoinHandle<T> { type V = T; uninterp spec fn view(&self) -> T; }
        #[verifier::external_body]
        pub fn spawned<T>(t: T) -> (r: JoinHandle<T>) ensures r@ == t { unimplemented!() }
        // @FLAVOUR !tokio
        pub type Joined<T> = T;
        /// `spawn_blocking(..).await`
        pub fn awaited<T>(t: T) -> (r: T) ensures r == t { t }
        impl<T> JoinHandle<T> {
            /// Future::poll of the handle (after R21)
            #[verifier::external_body]
            pub fn poll(&mut self, cx: &mut crate::shims::std::task::Context<'_>) -> (r: crate::shims::std::task::Poll<T>)
                ensures r is Ready ==> r->Ready_0 == old(self)@, final(self)@ == old(self)@
            { unimplemented!() }
        }
        // @ENDFLAVOUR
        // @FLAVOUR tokio
        pub struct JoinError { pub e: u8 }
        impl ::std::fmt::Debug for JoinError { #[verifier::external_body] fn fmt(&self, f: &mut ::std::fmt::Formatter<'_>) -> ::std::fmt::Result { Ok(()) } }
        /// tokio: a JoinError arises only if the task panicked or was aborted; the blocking
        /// bodies are verified not to panic and nothing aborts them: ASSUMED always Ok
        pub fn awaited<T>(t: T) -> (r: Result<T, JoinError>) ensures r == Ok::<T, JoinError>(t) { Ok(t) }
        impl<T> JoinHandle<T> {
            #[verifier::external_body]
            pub fn poll(&mut self, cx: &mut crate::shims::std::task::Context<'_>) -> (r: crate::shims::std::task::Poll<Result<T, JoinError>>)
                ensures r is Ready ==> r->Ready_0 == Ok::<T, JoinError>(old(self)@), final(self)@ == old(self)@
            { unimplemented!() }
        }
        // @ENDFLAVOUR
    }
}
pub mod futures {
    pub mod io {
        pub trait AsyncRead { }
        /// R2: `AsyncReadExt::read(&mut r, buf).await` becomes a blocking call
        pub trait AsyncReadExt {
            fn read(&mut self, buf: &mut [u8]) -> crate::shims::std::io::Result<usize>;
        }
        pub trait AsyncBufReadExt { }
        pub use crate::shims::write_trait::AsyncWrite;
        /// the extension methods of an AsyncWrite implementor live on the AsyncWrite shim itself;
        /// for the runtime's own File (== the std File shim after R2) they are the std Write methods
        pub use crate::shims::write_trait::Write as AsyncWriteExt;
    }
    pub mod stream { pub trait StreamExt { } }
    pub mod channel { pub mod oneshot {
        use vstd::prelude::*;
        /// futures::channel::oneshot.  MODEL: the two ends share an id; `chan_value(id)` is the
        /// value the receiver will yield (None: the sender was dropped without sending).  ASSUMED:
        /// `channel()` ids are fresh, so that `send` - which consumes the only sender - may
        /// reveal that value.
        #[verifier::external_body]
        #[verifier::reject_recursive_types(T)]
        pub struct Sender<T> { t: ::std::marker::PhantomData<T> }
        #[verifier::external_body]
        #[verifier::reject_recursive_types(T)]
        pub struct Receiver<T> { t: ::std::marker::PhantomData<T> }
        impl<T> View for Sender<T> { type V = int; uninterp spec fn view(&self) -> int; }
        impl<T> View for Receiver<T> { type V = int; uninterp spec fn view(&self) -> int; }
        pub uninterp spec fn chan_value<T>(id: int) -> Option<T>;
        #[verifier::external_body]
        pub fn channel<T>() -> (r: (Sender<T>, Receiver<T>)) ensures r.0@ == r.1@ { unimplemented!() }
        impl<T> Sender<T> {
            #[verifier::external_body]
            pub fn send(self, t: T) -> (r: Result<(), T>) ensures chan_value::<T>(self@) == Some(t) { unimplemented!() }
        }
    } }
    pub mod prelude { }
}

// @FLAVOUR tokio
pub mod tokio {
    pub mod fs {
        pub use crate::shims::std::fs::{File, read, read_to_string, copy, remove_file, remove_dir, create_dir_all, DirBuilder, metadata, remove_dir_all};
        pub use crate::shims::async_std::fs::OpenOptions;
    }
    pub mod io {
        use vstd::prelude::*;
        pub use crate::shims::std::io::{BufReader, Result, copy};
        pub use crate::shims::futures::io::{AsyncRead, AsyncReadExt, AsyncBufReadExt, AsyncWrite, AsyncWriteExt};
        /// tokio::io::ReadBuf: a buffer of `cap` bytes whose first `filled.len()` bytes are filled
        #[verifier::external_body]
        pub struct ReadBuf<'a> { b: &'a mut [u8] }
        pub struct ReadBufV { pub filled: Seq<u8>, pub cap: nat }
        impl<'a> View for ReadBuf<'a> { type V = ReadBufV; uninterp spec fn view(&self) -> ReadBufV; }
        impl<'a> ReadBuf<'a> {
            #[verifier::external_body]
            pub fn filled(&self) -> (r: &[u8]) ensures r@ == self@.filled { unimplemented!() }
            #[verifier::external_body]
            pub fn remaining(&self) -> (r: usize) ensures r == self@.cap - self@.filled.len() { unimplemented!() }
        }
    }
    pub mod task {
        pub use crate::shims::async_std::task::{JoinHandle, JoinError};
    }
}
pub mod tokio_stream { pub mod wrappers { } }
// @ENDFLAVOUR
