// ASSUMED: after R2 (async fn -> fn, `.await` removed) every async-std / tokio file
// operation has the semantics of its std counterpart.
pub mod async_std {
    pub mod fs {
        pub use crate::shims::std::fs::{File, read, copy, remove_file, create_dir_all, OpenOptions, DirBuilder, metadata, remove_dir_all};
    }
    pub mod io {
        pub use crate::shims::std::io::BufReader;
    }
    pub mod task {
        use vstd::prelude::*;
        #[verifier::external_body]
        #[verifier::reject_recursive_types(T)]
        pub struct JoinHandle<T> { t: ::std::marker::PhantomData<T> }
    }
}
pub mod futures {
    pub mod io {
        pub trait AsyncRead { }
        /// R2: `AsyncReadExt::read(&mut r, buf).await` becomes a blocking call
        pub trait AsyncReadExt {
            fn read(&mut self, buf: &mut [u8]) -> crate::shims::std::io::Result<usize>;
        }
        pub trait AsyncBufReadExt { }
        pub use crate::shims::write_trait::AsyncWrite;
        /// the extension methods of an AsyncWrite implementor live on the AsyncWrite shim itself;
        /// for the runtime's own File (== the std File shim after R2) they are the std Write methods
        pub use crate::shims::write_trait::Write as AsyncWriteExt;
    }
    pub mod stream { pub trait StreamExt { } }
    pub mod prelude { }
}
