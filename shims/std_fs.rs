// ASSUMED CONTRACTS for std::fs / std::io over the ghost world
pub mod io {
    use vstd::prelude::*;
    #[verifier::external_body]
    pub struct Error { e: u8 }
    #[derive(Clone, Copy, PartialEq, Eq)]
    pub enum ErrorKind { NotFound, PermissionDenied, AlreadyExists, InvalidData, Other }
    pub type Result<T> = ::std::result::Result<T, Error>;
    impl Error {
        pub uninterp spec fn spec_kind(&self) -> ErrorKind;
        #[verifier::external_body]
        pub fn kind(&self) -> (r: ErrorKind) ensures r == self.spec_kind() { unimplemented!() }
    }
    pub mod prelude {
        pub use super::Write;
    }
    pub use crate::shims::write_trait::Write;
    /// R13: `impl Read for X` blocks are extracted as inherent impls; the trait is only a name
    pub trait Read { }
}
pub mod fs {
    use vstd::prelude::*;
    use crate::spec::*;
    use crate::shims::World;
    use crate::shims::std::path::{Path, PathBuf, PathArg};
    use crate::shims::std::io;

    /// An open file.  `content` is the byte sequence the descriptor reads from: the
    /// file's bytes at open time (ASSUMED: nobody modifies the file while it is open —
    /// quiescence between the verification pass and its use), `pos` the read offset.
    #[verifier::external_body]
    pub struct File { f: u8 }
    pub struct FileV { pub path: PathV, pub content: Seq<u8>, pub pos: int }
    impl View for File { type V = FileV; uninterp spec fn view(&self) -> FileV; }

    impl File {
        #[verifier::external_body]
        pub fn open<A: PathArg>(p: A, Tracked(w): Tracked<&World>) -> (r: io::Result<File>)
            ensures
                r is Ok ==> readable(w.fs, p.pathv()) && r->Ok_0@ == (FileV { path: p.pathv(), content: bytes_at(w.fs, p.pathv()), pos: 0 })
                    && bytes_at(w.fs, p.pathv()).len() <= usize::MAX,
                w.healthy && readable(w.fs, p.pathv()) ==> r is Ok,
                r is Err && !exists_at(w.fs, p.pathv()) ==> r->Err_0.spec_kind() == io::ErrorKind::NotFound,
        { unimplemented!() }
        /// std::io::Read::read
        #[verifier::external_body]
        pub fn read(&mut self, buf: &mut [u8]) -> (r: io::Result<usize>)
            ensures
                final(buf)@.len() == old(buf)@.len(),
                final(self)@.path == old(self)@.path,
                final(self)@.content == old(self)@.content,
                match r {
                    Ok(n) => n <= old(buf)@.len() && old(self)@.pos + n <= old(self)@.content.len()
                        && final(self)@.pos == old(self)@.pos + n
                        && final(buf)@.subrange(0, n as int) == old(self)@.content.subrange(old(self)@.pos, old(self)@.pos + n)
                        && (n == 0 && old(buf)@.len() > 0 ==> old(self)@.pos == old(self)@.content.len()),
                    Err(_) => final(self)@.pos == old(self)@.pos,
                }
        { unimplemented!() }
    }

    #[verifier::external_body]
    pub fn read<A: PathArg>(p: A, Tracked(w): Tracked<&World>) -> (r: io::Result<Vec<u8>>)
        ensures
            r is Ok ==> readable(w.fs, p.pathv()) && r->Ok_0@ == bytes_at(w.fs, p.pathv()),
            w.healthy && readable(w.fs, p.pathv()) ==> r is Ok,
    { unimplemented!() }

    /// std::fs::copy: creates/truncates `to` and fills it; on failure `to` may be left
    /// holding any prefix (this is what makes "verify first, then copy" matter)
    #[verifier::external_body]
    pub fn copy<A: PathArg, B: PathArg>(from: A, to: B, Tracked(w): Tracked<&mut World>) -> (r: io::Result<u64>)
        ensures
            old(w).healthy == final(w).healthy,
            hist_ext(*old(w), *final(w)),
            world_wf(*old(w)) ==> world_wf(*final(w)),
            same_except(old(w).fs, final(w).fs, resolve(old(w).fs, to.pathv())),
            final(w).fs.dirs == old(w).fs.dirs,
            r is Ok ==> readable(old(w).fs, from.pathv())
                && final(w).fs.files.contains_key(resolve(old(w).fs, to.pathv()))
                && final(w).fs.files[resolve(old(w).fs, to.pathv())] == bytes_at(old(w).fs, from.pathv())
                && r->Ok_0 == bytes_at(old(w).fs, from.pathv()).len(),
            r is Err && !readable(old(w).fs, from.pathv()) ==> final(w).fs == old(w).fs,
            // every intermediate state differs from the old one only at `to`
            forall|i: int| old(w).hist.len() <= i < final(w).hist.len() ==> same_except(old(w).fs, #[trigger] final(w).hist[i], resolve(old(w).fs, to.pathv())),
    { unimplemented!() }

    /// link(2): fails if `to` exists; never changes anything else
    #[verifier::external_body]
    pub fn hard_link<A: PathArg, B: PathArg>(from: A, to: B, Tracked(w): Tracked<&mut World>) -> (r: io::Result<()>)
        ensures
            old(w).healthy == final(w).healthy,
            world_wf(*old(w)) ==> world_wf(*final(w)),
            r is Ok ==> old(w).fs.files.contains_key(from.pathv()) && !exists_at(old(w).fs, to.pathv())
                && final(w).fs == (Fs { files: old(w).fs.files.insert(to.pathv(), old(w).fs.files[from.pathv()]), ..old(w).fs })
                && final(w).hist == old(w).hist.push(final(w).fs),
            r is Err ==> final(w).fs == old(w).fs && final(w).hist == old(w).hist,
    { unimplemented!() }

    /// unlink(2)
    #[verifier::external_body]
    pub fn remove_file<A: PathArg>(p: A, Tracked(w): Tracked<&mut World>) -> (r: io::Result<()>)
        ensures
            old(w).healthy == final(w).healthy,
            world_wf(*old(w)) ==> world_wf(*final(w)),
            r is Ok ==> (old(w).fs.files.contains_key(p.pathv()) || old(w).fs.links.contains_key(p.pathv()))
                && final(w).fs == (Fs { files: old(w).fs.files.remove(p.pathv()), links: old(w).fs.links.remove(p.pathv()), ..old(w).fs })
                && final(w).hist == old(w).hist.push(final(w).fs),
            r is Err ==> final(w).fs == old(w).fs && final(w).hist == old(w).hist,
            old(w).healthy && (old(w).fs.files.contains_key(p.pathv()) || old(w).fs.links.contains_key(p.pathv())) ==> r is Ok,
    { unimplemented!() }
}
