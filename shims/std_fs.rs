// ASSUMED CONTRACTS for std::fs / std::io over the ghost world
pub mod io {
    use vstd::prelude::*;
    #[verifier::external_body]
    pub struct Error { e: u8 }
    #[verifier::external]
    impl ::std::fmt::Debug for Error { fn fmt(&self, f: &mut ::std::fmt::Formatter<'_>) -> ::std::fmt::Result { Ok(()) } }
    #[derive(Clone, Copy)]
    pub enum ErrorKind { NotFound, PermissionDenied, ConnectionRefused, ConnectionReset, HostUnreachable, NetworkUnreachable, ConnectionAborted, NotConnected, AddrInUse, AddrNotAvailable, NetworkDown, BrokenPipe, AlreadyExists, WouldBlock, NotADirectory, IsADirectory, DirectoryNotEmpty, ReadOnlyFilesystem, StaleNetworkFileHandle, InvalidInput, InvalidData, TimedOut, WriteZero, StorageFull, NotSeekable, QuotaExceeded, FileTooLarge, ResourceBusy, ExecutableFileBusy, Deadlock, CrossesDevices, TooManyLinks, InvalidFilename, ArgumentListTooLong, Interrupted, Unsupported, UnexpectedEof, OutOfMemory, Other }
    impl PartialEq for ErrorKind {
        fn eq(&self, other: &Self) -> (r: bool) ensures r == (*self == *other) {
            match (self, other) {
                (ErrorKind::NotFound, ErrorKind::NotFound) => true,
                (ErrorKind::PermissionDenied, ErrorKind::PermissionDenied) => true,
                (ErrorKind::ConnectionRefused, ErrorKind::ConnectionRefused) => true,
                (ErrorKind::ConnectionReset, ErrorKind::ConnectionReset) => true,
                (ErrorKind::HostUnreachable, ErrorKind::HostUnreachable) => true,
                (ErrorKind::NetworkUnreachable, ErrorKind::NetworkUnreachable) => true,
                (ErrorKind::ConnectionAborted, ErrorKind::ConnectionAborted) => true,
                (ErrorKind::NotConnected, ErrorKind::NotConnected) => true,
                (ErrorKind::AddrInUse, ErrorKind::AddrInUse) => true,
                (ErrorKind::AddrNotAvailable, ErrorKind::AddrNotAvailable) => true,
                (ErrorKind::NetworkDown, ErrorKind::NetworkDown) => true,
                (ErrorKind::BrokenPipe, ErrorKind::BrokenPipe) => true,
                (ErrorKind::AlreadyExists, ErrorKind::AlreadyExists) => true,
                (ErrorKind::WouldBlock, ErrorKind::WouldBlock) => true,
                (ErrorKind::NotADirectory, ErrorKind::NotADirectory) => true,
                (ErrorKind::IsADirectory, ErrorKind::IsADirectory) => true,
                (ErrorKind::DirectoryNotEmpty, ErrorKind::DirectoryNotEmpty) => true,
                (ErrorKind::ReadOnlyFilesystem, ErrorKind::ReadOnlyFilesystem) => true,
                (ErrorKind::StaleNetworkFileHandle, ErrorKind::StaleNetworkFileHandle) => true,
                (ErrorKind::InvalidInput, ErrorKind::InvalidInput) => true,
                (ErrorKind::InvalidData, ErrorKind::InvalidData) => true,
                (ErrorKind::TimedOut, ErrorKind::TimedOut) => true,
                (ErrorKind::WriteZero, ErrorKind::WriteZero) => true,
                (ErrorKind::StorageFull, ErrorKind::StorageFull) => true,
                (ErrorKind::NotSeekable, ErrorKind::NotSeekable) => true,
                (ErrorKind::QuotaExceeded, ErrorKind::QuotaExceeded) => true,
                (ErrorKind::FileTooLarge, ErrorKind::FileTooLarge) => true,
                (ErrorKind::ResourceBusy, ErrorKind::ResourceBusy) => true,
                (ErrorKind::ExecutableFileBusy, ErrorKind::ExecutableFileBusy) => true,
                (ErrorKind::Deadlock, ErrorKind::Deadlock) => true,
                (ErrorKind::CrossesDevices, ErrorKind::CrossesDevices) => true,
                (ErrorKind::TooManyLinks, ErrorKind::TooManyLinks) => true,
                (ErrorKind::InvalidFilename, ErrorKind::InvalidFilename) => true,
                (ErrorKind::ArgumentListTooLong, ErrorKind::ArgumentListTooLong) => true,
                (ErrorKind::Interrupted, ErrorKind::Interrupted) => true,
                (ErrorKind::Unsupported, ErrorKind::Unsupported) => true,
                (ErrorKind::UnexpectedEof, ErrorKind::UnexpectedEof) => true,
                (ErrorKind::OutOfMemory, ErrorKind::OutOfMemory) => true,
                (ErrorKind::Other, ErrorKind::Other) => true,
                _ => false,
            }
        }
    }
    impl vstd::std_specs::cmp::PartialEqSpecImpl for ErrorKind {
        open spec fn obeys_eq_spec() -> bool { true }
        open spec fn eq_spec(&self, other: &Self) -> bool { *self == *other }
    }
    pub type Result<T> = ::std::result::Result<T, Error>;
    impl ErrorKind {
        #[verifier::external_body]
        pub fn to_string(&self) -> (r: String) { unimplemented!() }
    }
    impl Error {
        /// io::Error::new(kind, payload)
        #[verifier::external_body]
        pub fn new<E>(kind: ErrorKind, e: E) -> (r: Error) ensures r.spec_kind() == kind { unimplemented!() }
        pub uninterp spec fn spec_kind(&self) -> ErrorKind;
        #[verifier::external_body]
        pub fn kind(&self) -> (r: ErrorKind) ensures r == self.spec_kind() { unimplemented!() }
    }
    pub mod prelude {
        pub use super::Write;
    }
    pub use crate::shims::write_trait::Write;
    /// R13: `impl Read for X` blocks are extracted as inherent impls; the trait is only a name
    pub trait Read { }
    pub trait BufRead { }
    /// std::io::copy: streams a reader into a writer.  WEAK ASSUMED CONTRACT: nothing is said
    /// about what reaches the file system (the reader/writer types are not modelled), so no
    pub enum SeekFrom { Start(u64), End(i64), Current(i64) }
    /// std::io::BufWriter: WEAK - what has reached the inner writer at any moment is unspecified
    /// (writes are buffered, `flush` pushes them out, a failed flush at drop is silent): every
    /// operation on it may have written anything to the file system that the frame allows
    #[verifier::external_body]
    #[verifier::reject_recursive_types(W)]
    pub struct BufWriter<W> { w: W }
    impl<W> BufWriter<W> {
        #[verifier::external_body]
        pub fn new(inner: W) -> (r: BufWriter<W>) { unimplemented!() }
        #[verifier::external_body]
        pub fn with_capacity(n: usize, inner: W) -> (r: BufWriter<W>) { unimplemented!() }
        #[verifier::external_body]
        pub fn write_all(&mut self, buf: &[u8], Tracked(w): Tracked<&mut crate::spec::World>) -> (r: Result<()>)
            ensures crate::spec::hist_ext(*old(w), *final(w)), final(w).healthy == old(w).healthy, crate::spec::world_wf(*old(w)) ==> crate::spec::world_wf(*final(w))
        { unimplemented!() }
        #[verifier::external_body]
        pub fn write(&mut self, buf: &[u8], Tracked(w): Tracked<&mut crate::spec::World>) -> (r: Result<usize>)
            ensures crate::spec::hist_ext(*old(w), *final(w)), final(w).healthy == old(w).healthy, crate::spec::world_wf(*old(w)) ==> crate::spec::world_wf(*final(w))
        { unimplemented!() }
        #[verifier::external_body]
        pub fn flush(&mut self, Tracked(w): Tracked<&mut crate::spec::World>) -> (r: Result<()>)
            ensures crate::spec::hist_ext(*old(w), *final(w)), final(w).healthy == old(w).healthy, crate::spec::world_wf(*old(w)) ==> crate::spec::world_wf(*final(w))
        { unimplemented!() }
    }
    /// frame or content fact survives a call — a unit that relies on one cannot be proved.
    #[verifier::external_body]
    pub fn copy<R, W>(reader: &mut R, writer: &mut W, Tracked(w): Tracked<&mut crate::spec::World>) -> (r: Result<u64>)
        ensures crate::spec::hist_ext(*old(w), *final(w)), final(w).healthy == old(w).healthy, crate::spec::world_wf(*old(w)) ==> crate::spec::world_wf(*final(w))
    { unimplemented!() }

    /// `BufRead::lines` of a byte sequence, as the items the iterator yields when no read
    /// fails.  ASSUMED (std): split at b'\n', strip one trailing "\r" of a terminated line, a
    /// final unterminated non-empty piece is a line, a line that is not UTF-8 is yielded as
    /// Err(kind = InvalidData) AND READING CONTINUES with the next line.
    pub uninterp spec fn lines_of(content: Seq<u8>) -> Seq<Result<String>>;
    /// a read error other than "this line is not UTF-8"
    pub open spec fn is_hard_error(x: Result<String>) -> bool { x is Err && x->Err_0.spec_kind() != ErrorKind::InvalidData }

    #[verifier::external_body]
    #[verifier::reject_recursive_types(R)]
    pub struct BufReader<R> { r: R }
    impl BufReader<crate::shims::std::fs::File> {
        #[verifier::external_body]
        pub fn new(f: crate::shims::std::fs::File) -> (r: Self) ensures r.file_view() == f@ { unimplemented!() }
        pub uninterp spec fn file_view(&self) -> crate::shims::std::fs::FileV;
        /// ASSUMED: when a read fails for another reason, the same error is yielded again on
        /// every later `next()` (the iterator never ends): `endless` with a hard error last.
        #[verifier::external_body]
        pub fn lines_(self) -> (r: crate::shims::iter::Iter<Result<String>>)
            ensures
                self.file_view().reliable ==> !r@.endless && r@.items == lines_of(crate::shims::std::fs::unread(self.file_view())),
                r@.endless ==> r@.items.len() > 0 && is_hard_error(r@.items.last()),
        { unimplemented!() }
    }
}
pub mod fs {
    use vstd::prelude::*;
    use crate::spec::*;
    use crate::shims::World;
    use crate::shims::std::path::{Path, PathBuf, PathArg};
    use crate::shims::std::io;

    /// An open file.  `content` is the byte sequence the descriptor reads from: the
    /// file's bytes at open time (ASSUMED: nobody modifies the file while it is open —
    /// quiescence between the verification pass and its use), `pos` the read offset.
    #[verifier::external_body]
    pub struct File { f: u8 }
    pub struct FileV { pub path: PathV, pub content: Seq<u8>, pub pos: int, pub mode: OpenMode,
        /// reads through this descriptor do not fail (true whenever the world is healthy)
        pub reliable: bool }
    /// how the descriptor was opened
    pub struct OpenMode { pub read: bool, pub write: bool, pub append: bool, pub create: bool, pub truncate: bool }
    pub open spec fn mode_read() -> OpenMode { OpenMode { read: true, write: false, append: false, create: false, truncate: false } }
    impl View for File { type V = FileV; uninterp spec fn view(&self) -> FileV; }

    /// the bytes a descriptor has not read yet
    pub open spec fn unread(f: FileV) -> Seq<u8> { if f.pos == 0 { f.content } else { f.content.subrange(f.pos, f.content.len() as int) } }
    impl File {
        #[verifier::external_body]
        pub fn open<A: PathArg>(p: A, Tracked(w): Tracked<&World>) -> (r: io::Result<File>)
            ensures
                r is Ok ==> readable(w.fs, p.pathv()) && r->Ok_0@.path == resolve(w.fs, p.pathv()) && r->Ok_0@.content == bytes_at(w.fs, p.pathv()) && r->Ok_0@.pos == 0 && r->Ok_0@.mode == mode_read() && (w.healthy ==> r->Ok_0@.reliable)
                    && bytes_at(w.fs, p.pathv()).len() <= usize::MAX,
                w.healthy && readable(w.fs, p.pathv()) ==> r is Ok,
                r is Err && !exists_at(w.fs, p.pathv()) ==> r->Err_0.spec_kind() == io::ErrorKind::NotFound,
        { unimplemented!() }
        /// std::io::Read::read_to_end: appends what is left of the file to `buf`
        #[verifier::external_body]
        pub fn read_to_end(&mut self, buf: &mut Vec<u8>) -> (r: io::Result<usize>)
            ensures
                final(self)@.path == old(self)@.path, final(self)@.mode == old(self)@.mode,
                final(self)@.reliable == old(self)@.reliable, final(self)@.content == old(self)@.content,
                r is Ok ==> old(self)@.pos <= old(self)@.content.len() && final(self)@.pos == old(self)@.content.len()
                    && final(buf)@ == old(buf)@ + old(self)@.content.subrange(old(self)@.pos, old(self)@.content.len() as int)
                    && r->Ok_0 == old(self)@.content.len() - old(self)@.pos,
        { unimplemented!() }
        /// std::io::Read::read
        #[verifier::external_body]
        pub fn read(&mut self, buf: &mut [u8]) -> (r: io::Result<usize>)
            ensures
                final(buf)@.len() == old(buf)@.len(),
                final(self)@.path == old(self)@.path,
                final(self)@.mode == old(self)@.mode,
                final(self)@.reliable == old(self)@.reliable,
                final(self)@.content == old(self)@.content,
                match r {
                    Ok(n) => n <= old(buf)@.len() && old(self)@.pos + n <= old(self)@.content.len()
                        && final(self)@.pos == old(self)@.pos + n
                        && final(buf)@.subrange(0, n as int) == old(self)@.content.subrange(old(self)@.pos, old(self)@.pos + n)
                        && (n == 0 && old(buf)@.len() > 0 ==> old(self)@.pos == old(self)@.content.len()),
                    Err(_) => final(self)@.pos == old(self)@.pos,
                }
        { unimplemented!() }
    }

    impl File {
        /// ftruncate(2): cut (or zero-extend) the file to `n` bytes
        #[verifier::external_body]
        pub fn set_len(&self, n: u64, Tracked(w): Tracked<&mut World>) -> (r: io::Result<()>)
            requires old(w).fs.files.contains_key(self@.path)
            ensures
                old(w).healthy == final(w).healthy, world_wf(*old(w)) ==> world_wf(*final(w)), hist_ext(*old(w), *final(w)),
                r is Err ==> final(w).fs == old(w).fs && final(w).hist == old(w).hist,
                r is Ok ==> final(w).hist == old(w).hist.push(final(w).fs)
                    && final(w).fs.files.dom() == old(w).fs.files.dom() && same_except(old(w).fs, final(w).fs, self@.path) && final(w).fs.dirs == old(w).fs.dirs
                    && final(w).fs.files[self@.path].len() == n
                    && (n <= old(w).fs.files[self@.path].len() ==> final(w).fs.files[self@.path] == old(w).fs.files[self@.path].subrange(0, n as int)),
                old(w).healthy && (self@.mode.write || self@.mode.append) ==> r is Ok,
        { unimplemented!() }
    }
    // @FLAVOUR !tokio
    impl File {
        /// AsyncRead::poll_read of an async-std file (after R21): Pending reads nothing
        #[verifier::external_body]
        pub fn poll_read(&mut self, cx: &mut crate::shims::std::task::Context<'_>, buf: &mut [u8]) -> (r: crate::shims::std::task::Poll<io::Result<usize>>)
            ensures
                final(buf)@.len() == old(buf)@.len(),
                final(self)@.path == old(self)@.path, final(self)@.mode == old(self)@.mode, final(self)@.reliable == old(self)@.reliable,
                final(self)@.content == old(self)@.content,
                match r {
                    crate::shims::std::task::Poll::Ready(Ok(n)) => n <= old(buf)@.len() && old(self)@.pos + n <= old(self)@.content.len()
                        && final(self)@.pos == old(self)@.pos + n
                        && final(buf)@.subrange(0, n as int) == old(self)@.content.subrange(old(self)@.pos, old(self)@.pos + n)
                        && (n == 0 && old(buf)@.len() > 0 ==> old(self)@.pos == old(self)@.content.len()),
                    _ => final(self)@.pos == old(self)@.pos,
                }
        { unimplemented!() }
    }
    // @ENDFLAVOUR
    // @FLAVOUR tokio
    impl File {
        /// tokio AsyncRead::poll_read (after R21): appends what it reads to the filled part of the
        /// ReadBuf; Pending / Err read nothing
        #[verifier::external_body]
        pub fn poll_read(&mut self, cx: &mut crate::shims::std::task::Context<'_>, buf: &mut crate::shims::tokio::io::ReadBuf<'_>) -> (r: crate::shims::std::task::Poll<io::Result<()>>)
            ensures
                final(buf)@.cap == old(buf)@.cap,
                final(self)@.path == old(self)@.path, final(self)@.mode == old(self)@.mode, final(self)@.reliable == old(self)@.reliable,
                final(self)@.content == old(self)@.content,
                match r {
                    crate::shims::std::task::Poll::Ready(Ok(_)) => {
                        let n = final(self)@.pos - old(self)@.pos;
                        &&& 0 <= n <= old(buf)@.cap - old(buf)@.filled.len()
                        &&& final(self)@.pos <= old(self)@.content.len()
                        &&& final(buf)@.filled == old(buf)@.filled + old(self)@.content.subrange(old(self)@.pos, final(self)@.pos)
                        &&& (n == 0 && old(buf)@.cap > old(buf)@.filled.len() ==> old(self)@.pos == old(self)@.content.len())
                    },
                    _ => final(self)@.pos == old(self)@.pos && final(buf)@.filled == old(buf)@.filled,
                }
        { unimplemented!() }
    }
    // @ENDFLAVOUR
    impl File {
        /// creat(2): creates or truncates.  The file is empty afterwards; nothing else changes.
        #[verifier::external_body]
        pub fn create<A: PathArg>(p: A, Tracked(w): Tracked<&mut World>) -> (r: io::Result<File>)
            ensures
                old(w).healthy == final(w).healthy, world_wf(*old(w)) ==> world_wf(*final(w)), hist_ext(*old(w), *final(w)),
                r is Err ==> final(w).fs == old(w).fs && final(w).hist == old(w).hist,
                r is Ok ==> final(w).fs == (Fs { files: old(w).fs.files.insert(resolve(old(w).fs, p.pathv()), Seq::<u8>::empty()), ..old(w).fs })
                    && final(w).hist == old(w).hist.push(final(w).fs)
                    && r->Ok_0@.path == resolve(old(w).fs, p.pathv()) && r->Ok_0@.pos == 0
                    && r->Ok_0@.mode == (OpenMode { read: false, write: true, append: false, create: true, truncate: true }),
        { unimplemented!() }
        /// fchmod(2): the model has no permission bits, nothing changes
        #[verifier::external_body]
        pub fn set_permissions(&self, perm: Permissions) -> (r: io::Result<()>) { unimplemented!() }
        /// lseek(2): only the offset changes (to where is not specified here)
        #[verifier::external_body]
        pub fn seek(&mut self, pos: io::SeekFrom) -> (r: io::Result<u64>)
            ensures final(self)@.path == old(self)@.path, final(self)@.mode == old(self)@.mode, final(self)@.content == old(self)@.content
        { unimplemented!() }
        /// fstat(2)
        #[verifier::external_body]
        pub fn metadata(&self, Tracked(w): Tracked<&World>) -> (r: io::Result<Metadata>) { unimplemented!() }
        #[verifier::external_body]
        pub fn sync_all(&self) -> (r: io::Result<()>) { unimplemented!() }
    }
    /// std::fs::write: create/truncate + write_all; on failure the file may hold any prefix
    #[verifier::external_body]
    pub fn write<A: PathArg, D: crate::shims::bytes::BytesArg>(p: A, data: D, Tracked(w): Tracked<&mut World>) -> (r: io::Result<()>)
        ensures
            old(w).healthy == final(w).healthy, world_wf(*old(w)) ==> world_wf(*final(w)), hist_ext(*old(w), *final(w)),
            same_except(old(w).fs, final(w).fs, resolve(old(w).fs, p.pathv())) && final(w).fs.dirs == old(w).fs.dirs,
            forall|i: int| old(w).hist.len() <= i < final(w).hist.len() ==> same_except(old(w).fs, #[trigger] final(w).hist[i], resolve(old(w).fs, p.pathv())),
            r is Ok ==> final(w).fs.files.contains_key(resolve(old(w).fs, p.pathv())) && final(w).fs.files[resolve(old(w).fs, p.pathv())] == data.bytes(),
    { unimplemented!() }
    /// std::fs::read_to_string: the whole file, or Err(InvalidData) if it is not UTF-8
    #[verifier::external_body]
    pub fn read_to_string<A: PathArg>(p: A, Tracked(w): Tracked<&World>) -> (r: io::Result<String>)
        ensures
            r is Ok ==> readable(w.fs, p.pathv()) && utf8(r->Ok_0@) == bytes_at(w.fs, p.pathv()),
            r is Err && !exists_at(w.fs, p.pathv()) ==> r->Err_0.spec_kind() == io::ErrorKind::NotFound,
            w.healthy && readable(w.fs, p.pathv()) && (exists|s: Seq<char>| utf8(s) == bytes_at(w.fs, p.pathv())) ==> r is Ok,
    { unimplemented!() }
    /// rename(2)
    #[verifier::external_body]
    pub fn rename<A: PathArg, B: PathArg>(from: A, to: B, Tracked(w): Tracked<&mut World>) -> (r: io::Result<()>)
        ensures
            old(w).healthy == final(w).healthy, world_wf(*old(w)) ==> world_wf(*final(w)), hist_ext(*old(w), *final(w)),
            r is Err ==> final(w).fs == old(w).fs && final(w).hist == old(w).hist,
            r is Ok ==> old(w).fs.files.contains_key(from.pathv())
                && final(w).fs == (Fs { files: old(w).fs.files.remove(from.pathv()).insert(to.pathv(), old(w).fs.files[from.pathv()]), links: old(w).fs.links.remove(to.pathv()), ..old(w).fs })
                && final(w).hist == old(w).hist.push(final(w).fs),
    { unimplemented!() }
    #[verifier::external_body]
    pub struct Metadata { m: u8 }
    #[verifier::external_body]
    pub struct Permissions { p: u8 }
    impl Permissions {
        #[verifier::external_body]
        pub fn readonly(&self) -> bool { unimplemented!() }
        #[verifier::external_body]
        pub fn set_readonly(&mut self, b: bool) { unimplemented!() }
    }
    impl Metadata {
        #[verifier::external_body]
        pub fn permissions(&self) -> (r: Permissions) { unimplemented!() }
        pub uninterp spec fn spec_len(&self) -> nat;
        #[verifier::external_body]
        pub fn len(&self) -> (r: u64) ensures r == self.spec_len() { unimplemented!() }
        /// (world argument accepted and ignored, see walkdir::FileType::is_dir)
        #[verifier::external_body]
        pub fn is_dir(&self, Tracked(w): Tracked<&World>) -> bool { unimplemented!() }
        #[verifier::external_body]
        pub fn is_file(&self, Tracked(w): Tracked<&World>) -> bool { unimplemented!() }
        #[verifier::external_body]
        pub fn modified(&self) -> (r: io::Result<crate::shims::std::time::SystemTime>) { unimplemented!() }
    }
    /// stat(2) (follows symbolic links)
    #[verifier::external_body]
    pub fn metadata<A: PathArg>(p: A, Tracked(w): Tracked<&World>) -> (r: io::Result<Metadata>)
        ensures
            r is Ok ==> (w.fs.files.contains_key(resolve(w.fs, p.pathv())) || w.fs.dirs.contains(resolve(w.fs, p.pathv()))),
            w.healthy && (w.fs.files.contains_key(resolve(w.fs, p.pathv())) || w.fs.dirs.contains(resolve(w.fs, p.pathv()))) ==> r is Ok,
    { unimplemented!() }
    /// lstat(2) (does not follow a final symbolic link)
    #[verifier::external_body]
    pub fn symlink_metadata<A: PathArg>(p: A, Tracked(w): Tracked<&World>) -> (r: io::Result<Metadata>)
        /*@PARTIAL*/ ensures
            r is Ok ==> (w.fs.links.contains_key(p.pathv()) || w.fs.files.contains_key(resolve(w.fs, p.pathv())) || w.fs.dirs.contains(resolve(w.fs, p.pathv()))),
    { unimplemented!() }
    #[verifier::external_body]
    pub fn read<A: PathArg>(p: A, Tracked(w): Tracked<&World>) -> (r: io::Result<Vec<u8>>)
        ensures
            r is Ok ==> readable(w.fs, p.pathv()) && r->Ok_0@ == bytes_at(w.fs, p.pathv()),
            w.healthy && readable(w.fs, p.pathv()) ==> r is Ok,
    { unimplemented!() }

    /// std::fs::copy: creates/truncates `to` and fills it; on failure `to` may be left
    /// holding any prefix (this is what makes "verify first, then copy" matter)
    #[verifier::external_body]
    pub fn copy<A: PathArg, B: PathArg>(from: A, to: B, Tracked(w): Tracked<&mut World>) -> (r: io::Result<u64>)
        ensures
            old(w).healthy == final(w).healthy,
            hist_ext(*old(w), *final(w)),
            world_wf(*old(w)) ==> world_wf(*final(w)),
            same_except(old(w).fs, final(w).fs, resolve(old(w).fs, to.pathv())),
            final(w).fs.dirs == old(w).fs.dirs,
            r is Ok ==> readable(old(w).fs, from.pathv())
                && final(w).fs.files.contains_key(resolve(old(w).fs, to.pathv()))
                && final(w).fs.files[resolve(old(w).fs, to.pathv())] == bytes_at(old(w).fs, from.pathv())
                && r->Ok_0 == bytes_at(old(w).fs, from.pathv()).len(),
            r is Err && !readable(old(w).fs, from.pathv()) ==> final(w).fs == old(w).fs,
            // every intermediate state differs from the old one only at `to`
            forall|i: int| old(w).hist.len() <= i < final(w).hist.len() ==> same_except(old(w).fs, #[trigger] final(w).hist[i], resolve(old(w).fs, to.pathv())),
    { unimplemented!() }

    /// link(2): fails if `to` exists; never changes anything else
    #[verifier::external_body]
    pub fn hard_link<A: PathArg, B: PathArg>(from: A, to: B, Tracked(w): Tracked<&mut World>) -> (r: io::Result<()>)
        ensures
            old(w).healthy == final(w).healthy,
            world_wf(*old(w)) ==> world_wf(*final(w)),
            r is Ok ==> old(w).fs.files.contains_key(from.pathv()) && !exists_at(old(w).fs, to.pathv())
                && final(w).fs == (Fs { files: old(w).fs.files.insert(to.pathv(), old(w).fs.files[from.pathv()]), ..old(w).fs })
                && final(w).hist == old(w).hist.push(final(w).fs),
            r is Err ==> final(w).fs == old(w).fs && final(w).hist == old(w).hist,
    { unimplemented!() }

    // ---- directory listing / recursive removal ----------------------------------------------
    /// the component of `p` directly below `d` (p strictly under d)
    pub open spec fn child_towards(d: PathV, p: PathV) -> PathV { child_towards_spec(d, p) }
    #[verifier::external_body]
    pub struct DirEntry { e: u8 }
    impl View for DirEntry { type V = PathV; uninterp spec fn view(&self) -> PathV; }
    impl DirEntry {
        #[verifier::external_body]
        pub fn path(&self) -> (r: PathBuf) ensures r@ == self@ { unimplemented!() }
    }
    /// the result of read_dir(d): a snapshot of d's direct children
    #[verifier::external_body]
    pub struct ReadDir { r: u8 }
    pub struct ReadDirV { pub dir: PathV, pub fs: Fs, pub healthy: bool }
    impl View for ReadDir { type V = ReadDirV; uninterp spec fn view(&self) -> ReadDirV; }
    impl ReadDir {
        /// `Iterator::flatten` over io::Result<DirEntry>: the entries that could be read.
        /// ASSUMED (and this encodes that a file system is a tree): on a healthy file system
        /// every path that exists strictly below `dir` lies at or below one of the yielded
        /// entries; every yielded entry is a direct child of `dir`; no entry is yielded twice.
        #[verifier::external_body]
        pub fn flatten(self) -> (r: crate::shims::iter::Iter<DirEntry>)
            ensures
                !r@.endless,
                forall|i: int| 0 <= i < r@.items.len() ==> parent_of((#[trigger] r@.items[i])@) == self@.dir && r@.items[i]@.comps.len() == self@.dir.comps.len() + 1,
                forall|i: int, j: int| 0 <= i < j < r@.items.len() ==> (#[trigger] r@.items[i])@ != (#[trigger] r@.items[j])@,
                self@.healthy ==> forall|p: PathV| #![trigger exists_at(self@.fs, p)] strictly_under(p, self@.dir) && exists_at(self@.fs, p) ==>
                    exists|i: int| 0 <= i < r@.items.len() && (#[trigger] r@.items[i])@ == child_towards(self@.dir, p),
        { unimplemented!() }
    }
    impl Path {
        #[verifier::external_body]
        pub fn read_dir(&self, Tracked(w): Tracked<&World>) -> (r: io::Result<ReadDir>)
            ensures
                r is Ok ==> r->Ok_0@.dir == self@ && r->Ok_0@.fs == w.fs && r->Ok_0@.healthy == w.healthy,
                w.healthy && w.fs.dirs.contains(self@) ==> r is Ok,
        { unimplemented!() }
    }
    /// remove_dir_all(p): removes p and everything below it.  On failure any part of it may
    /// already be gone.  Nothing that is not at or below p is touched.
    pub open spec fn removed_under(pre: Fs, post: Fs, p: PathV) -> bool {
        &&& same_outside(pre, post, p)
        &&& forall|q: PathV| #![trigger post.files.contains_key(q)] post.files.contains_key(q) ==> pre.files.contains_key(q) && post.files[q] == pre.files[q]
        &&& forall|q: PathV| #![trigger post.links.contains_key(q)] post.links.contains_key(q) ==> pre.links.contains_key(q) && post.links[q] == pre.links[q]
        &&& forall|q: PathV| #![trigger post.dirs.contains(q)] post.dirs.contains(q) ==> pre.dirs.contains(q)
    }
    /// removing below a sub-directory c of d composes with what was already removed below d
    pub proof fn lemma_removed_under_compose(d: PathV)
        ensures
            forall|pre: Fs, mid: Fs, post: Fs, c: PathV| #![trigger removed_under(pre, mid, d), removed_under(mid, post, c)]
                removed_under(pre, mid, d) && removed_under(mid, post, c) && under(c, d) ==> removed_under(pre, post, d),
            forall|pre: Fs, mid: Fs, post: Fs, c: PathV| #![trigger same_outside(pre, mid, d), removed_under(mid, post, c)]
                same_outside(pre, mid, d) && removed_under(mid, post, c) && under(c, d) ==> same_outside(pre, post, d),
    {
        assert forall|pre: Fs, mid: Fs, post: Fs, c: PathV| same_outside(pre, mid, d) && #[trigger] removed_under(mid, post, c) && under(c, d) implies #[trigger] same_outside(pre, post, d) by {
            assert forall|p: PathV| !under(p, d) implies !under(p, c) by { if under(p, c) { lemma_under_trans(p, c, d); } }
        }
        assert forall|pre: Fs, mid: Fs, post: Fs, c: PathV| #[trigger] removed_under(pre, mid, d) && #[trigger] removed_under(mid, post, c) && under(c, d) implies removed_under(pre, post, d) by {
            assert forall|p: PathV| !under(p, d) implies !under(p, c) by { if under(p, c) { lemma_under_trans(p, c, d); } }
        }
    }
    #[verifier::external_body]
    pub fn remove_dir_all<A: PathArg>(p: A, Tracked(w): Tracked<&mut World>) -> (r: io::Result<()>)
        ensures
            old(w).healthy == final(w).healthy, world_wf(*old(w)) ==> world_wf(*final(w)), hist_ext(*old(w), *final(w)),
            removed_under(old(w).fs, final(w).fs, p.pathv()),
            forall|i: int| old(w).hist.len() <= i < final(w).hist.len() ==> removed_under(old(w).fs, #[trigger] final(w).hist[i], p.pathv()),
            r is Ok ==> forall|q: PathV| #![trigger exists_at(final(w).fs, q)] under(q, p.pathv()) ==> !exists_at(final(w).fs, q),
            old(w).healthy && old(w).fs.dirs.contains(p.pathv()) ==> r is Ok,
    { unimplemented!() }

    /// rmdir(2): removes an EMPTY directory (fails otherwise) - wherever it is
    #[verifier::external_body]
    pub fn remove_dir<A: PathArg>(p: A, Tracked(w): Tracked<&mut World>) -> (r: io::Result<()>)
        ensures
            old(w).healthy == final(w).healthy, world_wf(*old(w)) ==> world_wf(*final(w)), hist_ext(*old(w), *final(w)),
            r is Err ==> final(w).fs == old(w).fs && final(w).hist == old(w).hist,
            r is Ok ==> old(w).fs.dirs.contains(p.pathv())
                && final(w).fs == (Fs { dirs: old(w).fs.dirs.remove(p.pathv()), ..old(w).fs })
                && final(w).hist == old(w).hist.push(final(w).fs),
    { unimplemented!() }

    /// unlink(2)
    #[verifier::external_body]
    pub fn remove_file<A: PathArg>(p: A, Tracked(w): Tracked<&mut World>) -> (r: io::Result<()>)
        ensures
            old(w).healthy == final(w).healthy,
            world_wf(*old(w)) ==> world_wf(*final(w)),
            r is Ok ==> (old(w).fs.files.contains_key(p.pathv()) || old(w).fs.links.contains_key(p.pathv()))
                && final(w).fs == (Fs { files: old(w).fs.files.remove(p.pathv()), links: old(w).fs.links.remove(p.pathv()), ..old(w).fs })
                && final(w).hist == old(w).hist.push(final(w).fs),
            r is Err ==> final(w).fs == old(w).fs && final(w).hist == old(w).hist,
            old(w).healthy && (old(w).fs.files.contains_key(p.pathv()) || old(w).fs.links.contains_key(p.pathv())) ==> r is Ok,
    { unimplemented!() }

    // ---- directories ---------------------------------------------------------------------
    /// mkdir -p: creates `p` and its missing ancestors; files and links are untouched;
    /// tolerant of existing directories
    pub open spec fn mkdirs_post(pre: Fs, post: Fs, p: PathV) -> bool {
        &&& post.files == pre.files
        &&& post.links == pre.links
        &&& forall|d: PathV| #![trigger pre.dirs.contains(d)] pre.dirs.contains(d) ==> post.dirs.contains(d)
        &&& forall|d: PathV| #![trigger post.dirs.contains(d)] post.dirs.contains(d) && !pre.dirs.contains(d) ==> under(p, d)
    }
    #[verifier::external_body]
    pub fn create_dir_all<A: PathArg>(p: A, Tracked(w): Tracked<&mut World>) -> (r: io::Result<()>)
        ensures
            old(w).healthy == final(w).healthy,
            world_wf(*old(w)) ==> world_wf(*final(w)),
            hist_ext(*old(w), *final(w)),
            mkdirs_post(old(w).fs, final(w).fs, p.pathv()),
            forall|i: int| old(w).hist.len() <= i < final(w).hist.len() ==> mkdirs_post(old(w).fs, #[trigger] final(w).hist[i], p.pathv()),
            r is Ok ==> final(w).fs.dirs.contains(p.pathv()),
            old(w).healthy && !exists_file_on_path(old(w).fs, p.pathv()) ==> r is Ok,
    { unimplemented!() }

    #[verifier::external_body]
    pub struct DirBuilder { d: u8 }
    impl View for DirBuilder { type V = bool; uninterp spec fn view(&self) -> bool; }   // recursive?
    impl DirBuilder {
        #[verifier::external_body]
        pub fn new() -> (r: DirBuilder) ensures r@ == false { unimplemented!() }
        #[verifier::external_body]
        pub fn recursive(&mut self, rec: bool) -> (r: &mut DirBuilder) ensures r@ == rec, *final(r) == *final(self) { unimplemented!() }
        /// recursive: mkdir -p (tolerant of existing directories); non-recursive: one mkdir
        #[verifier::external_body]
        pub fn create<A: PathArg>(&self, p: A, Tracked(w): Tracked<&mut World>) -> (r: io::Result<()>)
            ensures
                old(w).healthy == final(w).healthy,
                world_wf(*old(w)) ==> world_wf(*final(w)),
                hist_ext(*old(w), *final(w)),
                mkdirs_post(old(w).fs, final(w).fs, p.pathv()),
                forall|i: int| old(w).hist.len() <= i < final(w).hist.len() ==> mkdirs_post(old(w).fs, #[trigger] final(w).hist[i], p.pathv()),
                !self@ ==> forall|d: PathV| final(w).fs.dirs.contains(d) && !old(w).fs.dirs.contains(d) ==> d == p.pathv(),
                r is Ok ==> final(w).fs.dirs.contains(p.pathv()),
                old(w).healthy && self@ && !exists_file_on_path(old(w).fs, p.pathv()) ==> r is Ok,
        { unimplemented!() }
    }
    /// some proper-or-equal ancestor of p is a regular file or a symlink (mkdir -p then fails)
    pub open spec fn exists_file_on_path(fs: Fs, p: PathV) -> bool {
        exists|d: PathV| under(p, d) && (#[trigger] fs.files.contains_key(d) || fs.links.contains_key(d))
    }

    // ---- writing -------------------------------------------------------------------------
    /// the handle belongs to an async runtime (async-std / tokio `fs::File` opened for writing):
    /// `write`/`write_all` only fill a user-space buffer, the data reaches the file - and a
    /// write error reaches the caller - at `flush` (dropping the handle writes in the
    /// background and discards the result).  `file_pending` is what sits in that buffer.
    pub uninterp spec fn file_buffered(f: File) -> bool;
    pub uninterp spec fn file_pending(f: File) -> Seq<u8>;
    #[verifier::external_body]
    pub struct OpenOptions { o: u8 }
    impl View for OpenOptions { type V = OpenMode; uninterp spec fn view(&self) -> OpenMode; }
    impl OpenOptions {
        #[verifier::external_body]
        pub fn new() -> (r: OpenOptions) ensures r@ == (OpenMode { read: false, write: false, append: false, create: false, truncate: false }) { unimplemented!() }
        #[verifier::external_body]
        pub fn read(&mut self, b: bool) -> (r: &mut OpenOptions) ensures r@ == (OpenMode { read: b, ..old(self)@ }), *final(r) == *final(self) { unimplemented!() }
        #[verifier::external_body]
        pub fn write(&mut self, b: bool) -> (r: &mut OpenOptions) ensures r@ == (OpenMode { write: b, ..old(self)@ }), *final(r) == *final(self) { unimplemented!() }
        #[verifier::external_body]
        pub fn append(&mut self, b: bool) -> (r: &mut OpenOptions) ensures r@ == (OpenMode { append: b, ..old(self)@ }), *final(r) == *final(self) { unimplemented!() }
        #[verifier::external_body]
        pub fn create(&mut self, b: bool) -> (r: &mut OpenOptions) ensures r@ == (OpenMode { create: b, ..old(self)@ }), *final(r) == *final(self) { unimplemented!() }
        #[verifier::external_body]
        pub fn truncate(&mut self, b: bool) -> (r: &mut OpenOptions) ensures r@ == (OpenMode { truncate: b, ..old(self)@ }), *final(r) == *final(self) { unimplemented!() }
        /// open(2).  With `create` a missing file is created empty (its parent directory must
        /// exist); with `truncate` an existing file is emptied; nothing else changes.
        #[verifier::external_body]
        pub fn open<A: PathArg>(&self, p: A, Tracked(w): Tracked<&mut World>) -> (r: io::Result<File>)
            ensures
                old(w).healthy == final(w).healthy,
                world_wf(*old(w)) ==> world_wf(*final(w)),
                hist_ext(*old(w), *final(w)),
                r is Err ==> final(w).fs == old(w).fs && final(w).hist == old(w).hist,
                r is Ok ==> {
                    let q = resolve(old(w).fs, p.pathv());
                    let existed = old(w).fs.files.contains_key(q);
                    let bytes0 = if existed && !self@.truncate { old(w).fs.files[q] } else { Seq::<u8>::empty() };
                    &&& (existed || self@.create)
                    &&& (self@.write || self@.append || (!self@.create && !self@.truncate))
                    &&& final(w).fs == (Fs { files: old(w).fs.files.insert(q, bytes0), ..old(w).fs })
                    &&& (final(w).fs == old(w).fs ==> final(w).hist == old(w).hist)
                    &&& (final(w).fs != old(w).fs ==> final(w).hist == old(w).hist.push(final(w).fs))
                    &&& r->Ok_0@.path == q && r->Ok_0@.content == bytes0 && r->Ok_0@.pos == 0 && r->Ok_0@.mode == self@ && (old(w).healthy ==> r->Ok_0@.reliable)
                    &&& bytes0.len() <= usize::MAX
                    &&& !file_buffered(r->Ok_0)
                },
                old(w).healthy && (self@.write || self@.append) && self@.create && old(w).fs.dirs.contains(parent_of(p.pathv()))
                    && !old(w).fs.dirs.contains(p.pathv()) && !old(w).fs.links.contains_key(p.pathv()) ==> r is Ok,
        { unimplemented!() }
    }

    /// what one `write`/`write_all` of `buf` through descriptor `f` does to the file `f.path`:
    /// an O_APPEND descriptor appends at the current end of the file; any other descriptor
    /// writes at its own offset (0 right after open), overwriting what is there
    pub open spec fn written(f: FileV, old_bytes: Seq<u8>, data: Seq<u8>) -> Seq<u8> {
        if f.mode.append { old_bytes + data }
        else {
            let start = if f.pos <= old_bytes.len() { f.pos } else { old_bytes.len() as int };
            let tail_from = if start + data.len() <= old_bytes.len() { start + data.len() } else { old_bytes.len() as int };
            old_bytes.subrange(0, start) + data + old_bytes.subrange(tail_from, old_bytes.len() as int)
        }
    }
    pub open spec fn file_write_post(f0: FileV, f1: FileV, pre: World, post: World, buf: Seq<u8>, k: int) -> bool {
        &&& 0 <= k <= buf.len()
        &&& f1 == (FileV { pos: f0.pos + k, ..f0 })
        &&& pre.fs.files.contains_key(f0.path)
        &&& post.fs == (Fs { files: pre.fs.files.insert(f0.path, written(f0, pre.fs.files[f0.path], buf.subrange(0, k))), ..pre.fs })
        &&& post.healthy == pre.healthy
        &&& hist_ext(pre, post)
        &&& (world_wf(pre) ==> world_wf(post))
        // every intermediate state holds a prefix of what was being written (a torn write)
        &&& forall|i: int| #![trigger post.hist[i]] pre.hist.len() <= i < post.hist.len() ==> exists|j: int| 0 <= j <= k &&
              post.hist[i] == (Fs { files: pre.fs.files.insert(f0.path, written(f0, pre.fs.files[f0.path], #[trigger] buf.subrange(0, j))), ..pre.fs })
    }

    impl io::Write for File {
        open spec fn wr_inv(&self, w: World) -> bool { (self@.mode.write || self@.mode.append) && w.fs.files.contains_key(self@.path) }
        open spec fn wr_sink(&self, w: World) -> Seq<u8> { if file_buffered(*self) { w.fs.files[self@.path] + file_pending(*self) } else { w.fs.files[self@.path] } }
        open spec fn wr_step(pre_s: Self, pre: World, post_s: Self, post: World) -> bool {
            &&& post_s@.path == pre_s@.path && post_s@.mode == pre_s@.mode
            &&& same_except(pre.fs, post.fs, pre_s@.path) && post.fs.dirs == pre.fs.dirs
            &&& post.healthy == pre.healthy && hist_ext(pre, post) && (world_wf(pre) ==> world_wf(post))
        }
        #[verifier::external_body]
        proof fn wr_step_refl(s: Self, w: World) {}
        #[verifier::external_body]
        proof fn wr_step_trans(a: Self, wa: World, b: Self, wb: World, c: Self, wc: World) {}

        #[verifier::external_body]
        fn write(&mut self, buf: &[u8], Tracked(w): Tracked<&mut World>) -> (r: io::Result<usize>)
            ensures
                file_buffered(*final(self)) == file_buffered(*old(self)),
                !file_buffered(*old(self)) ==> {
                    &&& (r is Ok ==> file_write_post(old(self)@, final(self)@, *old(w), *final(w), buf@, r->Ok_0 as int))
                    &&& (r is Ok && old(w).healthy ==> r->Ok_0 == buf@.len())
                    &&& (r is Err ==> final(self)@ == old(self)@ && final(w).fs == old(w).fs && final(w).hist == old(w).hist && final(w).healthy == old(w).healthy)
                },
                file_buffered(*old(self)) ==> *final(w) == *old(w) && final(self)@ == old(self)@
                    && (r is Ok ==> r->Ok_0 <= buf@.len() && file_pending(*final(self)) == file_pending(*old(self)) + buf@.subrange(0, r->Ok_0 as int))
                    && (r is Err ==> file_pending(*final(self)) == file_pending(*old(self))),
                old(w).healthy ==> r is Ok,
        { unimplemented!() }
        #[verifier::external_body]
        fn flush(&mut self, Tracked(w): Tracked<&mut World>) -> (r: io::Result<()>)
            ensures
                file_buffered(*final(self)) == file_buffered(*old(self)),
                !file_buffered(*old(self)) ==> final(self)@ == old(self)@ && *final(w) == *old(w),
                // a buffered (async runtime) handle writes its buffer now, as one write_all would
                file_buffered(*old(self)) ==> exists|k: int| #[trigger] file_write_post(old(self)@, final(self)@, *old(w), *final(w), file_pending(*old(self)), k)
                    && (r is Ok ==> k == file_pending(*old(self)).len() && file_pending(*final(self)) == Seq::<u8>::empty()),
                old(w).healthy ==> r is Ok,
        { unimplemented!() }
        /// ASSUMED: for an O_APPEND descriptor the chunks of one write_all land contiguously
        /// (no other writer in between: quiescence)
        #[verifier::external_body]
        fn write_all(&mut self, buf: &[u8], Tracked(w): Tracked<&mut World>) -> (r: io::Result<()>)
            ensures
                file_buffered(*final(self)) == file_buffered(*old(self)),
                !file_buffered(*old(self)) ==> exists|k: int| #[trigger] file_write_post(old(self)@, final(self)@, *old(w), *final(w), buf@, k) && (r is Ok ==> k == buf@.len()),
                file_buffered(*old(self)) ==> *final(w) == *old(w) && final(self)@ == old(self)@ && r is Ok
                    && file_pending(*final(self)) == file_pending(*old(self)) + buf@,
                old(w).healthy ==> r is Ok,
        { unimplemented!() }
    }
}
