// R19 support: `X[a..b].copy_from_slice(src)`.  ASSUMED (core): panics unless a <= b <= len
// and b - a == src.len(); otherwise overwrites exactly that range.
pub mod slices {
    use vstd::prelude::*;
    use crate::spec::*;
    use crate::shims::memmap2::MmapMut;
    /// what `X[a..b].copy_from_slice(src)` needs and does, per kind of X
    pub trait CopyTarget {
        spec fn copy_pre(&self, a: usize, b: usize, src: Seq<u8>, w: World) -> bool;
        spec fn copy_post(&self, fin: &Self, a: usize, b: usize, src: Seq<u8>, w0: World, w1: World) -> bool;
    }
    /// writing through a shared file mapping writes the file (page-cache coherent with
    /// read(2)/rename(2)); a kill in the middle of the copy may leave any mixture of old and
    /// new bytes in that range
    impl CopyTarget for MmapMut {
        open spec fn copy_pre(&self, a: usize, b: usize, src: Seq<u8>, w: World) -> bool {
            a <= b <= self@.len && b - a == src.len() && w.fs.files.contains_key(self@.path) && w.fs.files[self@.path].len() == self@.len
        }
        open spec fn copy_post(&self, fin: &Self, a: usize, b: usize, src: Seq<u8>, w0: World, w1: World) -> bool {
            &&& fin@ == self@
            &&& w1.healthy == w0.healthy && hist_ext(w0, w1) && (world_wf(w0) ==> world_wf(w1))
            &&& w1.fs == (Fs { files: w0.fs.files.insert(self@.path,
                    w0.fs.files[self@.path].subrange(0, a as int) + src + w0.fs.files[self@.path].subrange(b as int, self@.len as int)), ..w0.fs })
            &&& forall|i: int| #![trigger w1.hist[i]] w0.hist.len() <= i < w1.hist.len() ==>
                    same_except(w0.fs, w1.hist[i], self@.path) && w1.hist[i].dirs == w0.fs.dirs && w1.hist[i].files.contains_key(self@.path)
        }
    }
    /// an in-memory buffer: the file system is not involved
    impl CopyTarget for [u8] {
        open spec fn copy_pre(&self, a: usize, b: usize, src: Seq<u8>, w: World) -> bool { a <= b <= self@.len() && b - a == src.len() }
        open spec fn copy_post(&self, fin: &Self, a: usize, b: usize, src: Seq<u8>, w0: World, w1: World) -> bool {
            w1 == w0 && fin@ == self@.subrange(0, a as int) + src + self@.subrange(b as int, self@.len() as int)
        }
    }
    #[verifier::external_body]
    pub fn copy_into<D: CopyTarget + ?Sized>(dst: &mut D, a: usize, b: usize, src: &[u8], Tracked(w): Tracked<&mut World>)
        requires old(dst).copy_pre(a, b, src@, *old(w)),
        ensures old(dst).copy_post(final(dst), a, b, src@, *old(w), *final(w)),
    { unimplemented!() }
}

/// R25: `and_then` written out as a match, for Result and Option alike
pub mod ctl {
    use vstd::prelude::*;
    pub enum Split<C, B> { Go(C), Stop(B) }
    pub trait Splittable: Sized {
        type C;
        type B;
        spec fn split_spec(self) -> Split<Self::C, Self::B>;
        fn split(self) -> (r: Split<Self::C, Self::B>) ensures r == self.split_spec();
    }
    impl<T, E> Splittable for Result<T, E> {
        type C = T;
        type B = E;
        open spec fn split_spec(self) -> Split<T, E> { match self { Ok(t) => Split::Go(t), Err(e) => Split::Stop(e) } }
        fn split(self) -> (r: Split<T, E>) { match self { Ok(t) => Split::Go(t), Err(e) => Split::Stop(e) } }
    }
    impl<T> Splittable for Option<T> {
        type C = T;
        type B = ();
        open spec fn split_spec(self) -> Split<T, ()> { match self { Some(t) => Split::Go(t), None => Split::Stop(()) } }
        fn split(self) -> (r: Split<T, ()>) { match self { Some(t) => Split::Go(t), None => Split::Stop(()) } }
    }
    pub trait FromStop<B>: Sized {
        spec fn from_stop_spec(b: B) -> Self;
        fn from_stop(b: B) -> (r: Self) ensures r == Self::from_stop_spec(b);
    }
    impl<U, E> FromStop<E> for Result<U, E> {
        open spec fn from_stop_spec(b: E) -> Self { Err(b) }
        fn from_stop(b: E) -> (r: Self) { Err(b) }
    }
    impl<U> FromStop<()> for Option<U> {
        open spec fn from_stop_spec(b: ()) -> Self { None }
        fn from_stop(b: ()) -> (r: Self) { None }
    }
}
