// R19 support: `X[a..b].copy_from_slice(src)`.  ASSUMED (core): panics unless a <= b <= len
// and b - a == src.len(); otherwise overwrites exactly that range.
pub mod slices {
    use vstd::prelude::*;
    use crate::spec::*;
    use crate::shims::memmap2::MmapMut;
    /// writing through a shared file mapping writes the file (page-cache coherent with
    /// read(2)/rename(2)); a kill in the middle of the copy may leave any mixture of old and
    /// new bytes in that range
    #[verifier::external_body]
    pub fn copy_into(dst: &mut MmapMut, a: usize, b: usize, src: &[u8], Tracked(w): Tracked<&mut World>)
        requires
            a <= b <= old(dst)@.len, b - a == src@.len(),
            old(w).fs.files.contains_key(old(dst)@.path), old(w).fs.files[old(dst)@.path].len() == old(dst)@.len,
        ensures
            final(dst)@ == old(dst)@,
            final(w).healthy == old(w).healthy, hist_ext(*old(w), *final(w)), world_wf(*old(w)) ==> world_wf(*final(w)),
            final(w).fs == (Fs { files: old(w).fs.files.insert(old(dst)@.path,
                old(w).fs.files[old(dst)@.path].subrange(0, a as int) + src@ + old(w).fs.files[old(dst)@.path].subrange(b as int, old(dst)@.len as int)), ..old(w).fs }),
            forall|i: int| #![trigger final(w).hist[i]] old(w).hist.len() <= i < final(w).hist.len() ==>
                same_except(old(w).fs, final(w).hist[i], old(dst)@.path) && final(w).hist[i].dirs == old(w).fs.dirs && final(w).hist[i].files.contains_key(old(dst)@.path),
    { unimplemented!() }
}
