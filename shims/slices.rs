// R19 support: `X[a..b].copy_from_slice(src)`.  ASSUMED (core): panics unless a <= b <= len
// and b - a == src.len(); otherwise overwrites exactly that range.
pub mod slices {
    use vstd::prelude::*;
    use crate::spec::*;
    use crate::shims::memmap2::MmapMut;
    /// writing through a shared file mapping writes the file (page-cache coherent with
    /// read(2)/rename(2)); a kill in the middle of the copy may leave any mixture of old and
    /// new bytes in that range
    #[verifier::external_body]
    pub fn copy_into(dst: &mut MmapMut, a: usize, b: usize, src: &[u8], Tracked(w): Tracked<&mut World>)
        requires
            a <= b <= old(dst)@.len, b - a == src@.len(),
            old(w).fs.files.contains_key(old(dst)@.path), old(w).fs.files[old(dst)@.path].len() == old(dst)@.len,
        ensures
            final(dst)@ == old(dst)@,
            final(w).healthy == old(w).healthy, hist_ext(*old(w), *final(w)), world_wf(*old(w)) ==> world_wf(*final(w)),
            final(w).fs == (Fs { files: old(w).fs.files.insert(old(dst)@.path,
                old(w).fs.files[old(dst)@.path].subrange(0, a as int) + src@ + old(w).fs.files[old(dst)@.path].subrange(b as int, old(dst)@.len as int)), ..old(w).fs }),
            forall|i: int| #![trigger final(w).hist[i]] old(w).hist.len() <= i < final(w).hist.len() ==>
                same_except(old(w).fs, final(w).hist[i], old(dst)@.path) && final(w).hist[i].dirs == old(w).fs.dirs && final(w).hist[i].files.contains_key(old(dst)@.path),
    { unimplemented!() }
}

/// R25: `and_then` written out as a match, for Result and Option alike
pub mod ctl {
    use vstd::prelude::*;
    pub enum Split<C, B> { Go(C), Stop(B) }
    pub trait Splittable: Sized {
        type C;
        type B;
        spec fn split_spec(self) -> Split<Self::C, Self::B>;
        fn split(self) -> (r: Split<Self::C, Self::B>) ensures r == self.split_spec();
    }
    impl<T, E> Splittable for Result<T, E> {
        type C = T;
        type B = E;
        open spec fn split_spec(self) -> Split<T, E> { match self { Ok(t) => Split::Go(t), Err(e) => Split::Stop(e) } }
        fn split(self) -> (r: Split<T, E>) { match self { Ok(t) => Split::Go(t), Err(e) => Split::Stop(e) } }
    }
    impl<T> Splittable for Option<T> {
        type C = T;
        type B = ();
        open spec fn split_spec(self) -> Split<T, ()> { match self { Some(t) => Split::Go(t), None => Split::Stop(()) } }
        fn split(self) -> (r: Split<T, ()>) { match self { Some(t) => Split::Go(t), None => Split::Stop(()) } }
    }
    pub trait FromStop<B>: Sized {
        spec fn from_stop_spec(b: B) -> Self;
        fn from_stop(b: B) -> (r: Self) ensures r == Self::from_stop_spec(b);
    }
    impl<U, E> FromStop<E> for Result<U, E> {
        open spec fn from_stop_spec(b: E) -> Self { Err(b) }
        fn from_stop(b: E) -> (r: Self) { Err(b) }
    }
    impl<U> FromStop<()> for Option<U> {
        open spec fn from_stop_spec(b: ()) -> Self { None }
        fn from_stop(b: ()) -> (r: Self) { None }
    }
}
