// std::io::Write as a trait with a trait-level contract.
//   * `write` / `flush` are required methods: every `impl Write for X` extracted from /repo
//     must satisfy the contract below (Verus checks the impl against it);
//   * `write_all` is std's provided method.  ASSUMED: it calls `write` repeatedly on the
//     unwritten rest until everything is accepted or an error is returned — so it is
//     specified purely in terms of the contract of `write` (composition of steps).
pub mod write_trait {
    use vstd::prelude::*;
    use crate::spec::*;
    use crate::shims::std::io;
    pub trait Write: Sized {
        /// implementor's invariant linking the object to the file system
        spec fn wr_inv(&self, w: World) -> bool;
        /// the bytes accepted so far
        spec fn wr_sink(&self, w: World) -> Seq<u8>;
        /// what any number of write/flush steps may change (must be reflexive + transitive)
        spec fn wr_step(pre_s: Self, pre: World, post_s: Self, post: World) -> bool;
        proof fn wr_step_refl(s: Self, w: World)
            ensures Self::wr_step(s, w, s, w);
        proof fn wr_step_trans(a: Self, wa: World, b: Self, wb: World, c: Self, wc: World)
            requires Self::wr_step(a, wa, b, wb), Self::wr_step(b, wb, c, wc)
            ensures Self::wr_step(a, wa, c, wc);

        fn write(&mut self, buf: &[u8], Tracked(w): Tracked<&mut World>) -> (r: io::Result<usize>)
            requires old(self).wr_inv(*old(w)),
            ensures
                final(self).wr_inv(*final(w)),
                Self::wr_step(*old(self), *old(w), *final(self), *final(w)),
                r is Ok ==> r->Ok_0 <= buf@.len() && final(self).wr_sink(*final(w)) == old(self).wr_sink(*old(w)) + buf@.subrange(0, r->Ok_0 as int),
                r is Err ==> final(self).wr_sink(*final(w)) == old(self).wr_sink(*old(w));

        fn flush(&mut self, Tracked(w): Tracked<&mut World>) -> (r: io::Result<()>)
            requires old(self).wr_inv(*old(w)),
            ensures
                final(self).wr_inv(*final(w)),
                Self::wr_step(*old(self), *old(w), *final(self), *final(w)),
                final(self).wr_sink(*final(w)) == old(self).wr_sink(*old(w));

        #[verifier::external_body]
        fn write_all(&mut self, buf: &[u8], Tracked(w): Tracked<&mut World>) -> (r: io::Result<()>)
            requires old(self).wr_inv(*old(w)),
            ensures
                final(self).wr_inv(*final(w)),
                Self::wr_step(*old(self), *old(w), *final(self), *final(w)),
                r is Ok ==> final(self).wr_sink(*final(w)) == old(self).wr_sink(*old(w)) + buf@,
                r is Err ==> exists|k: int| 0 <= k <= buf@.len() && final(self).wr_sink(*final(w)) == old(self).wr_sink(*old(w)) + buf@.subrange(0, k),
        { unimplemented!() }
    }

    /// futures::io::AsyncWrite / tokio::io::AsyncWrite after R21 (Pin receivers -> &mut self),
    /// with the same trait-level contract as `Write`, in Poll form.
    /// `wr_inv` is the invariant between operations; `wr_mid(w, buf)` the one while a write of
    /// `buf` has been started and its completion not yet reported (poll_write returned
    /// Pending): the caller must then poll again WITH THE SAME BUFFER (the AsyncWrite
    /// protocol), which is the precondition below.  `wr_sink` is the sequence of bytes whose
    /// acceptance has been reported to the caller.
    /// `write_all` (AsyncWriteExt, after R2) is the provided method.  ASSUMED: it polls
    /// `poll_write` on the unwritten rest (same buffer after Pending) until everything is
    /// accepted or an error is returned.
    pub trait AsyncWrite: Sized {
        spec fn wr_inv(&self, w: World) -> bool;
        spec fn wr_mid(&self, w: World, buf: Seq<u8>) -> bool;
        spec fn wr_sink(&self, w: World) -> Seq<u8>;
        spec fn wr_step(pre_s: Self, pre: World, post_s: Self, post: World) -> bool;
        /// the part of wr_step that speaks about the file system only
        spec fn wr_frame(pre_s: Self, pre: World, post: World) -> bool;
        proof fn wr_step_refl(s: Self, w: World)
            ensures Self::wr_step(s, w, s, w);
        proof fn wr_step_trans(a: Self, wa: World, b: Self, wb: World, c: Self, wc: World)
            requires Self::wr_step(a, wa, b, wb), Self::wr_step(b, wb, c, wc)
            ensures Self::wr_step(a, wa, c, wc);

        fn poll_write(&mut self, cx: &mut crate::shims::std::task::Context<'_>, buf: &[u8], Tracked(w): Tracked<&mut World>) -> (r: crate::shims::std::task::Poll<io::Result<usize>>)
            requires old(self).wr_inv(*old(w)) || old(self).wr_mid(*old(w), buf@),
            ensures
                r is Ready ==> final(self).wr_inv(*final(w)),
                r is Pending ==> final(self).wr_inv(*final(w)) || final(self).wr_mid(*final(w), buf@),
                Self::wr_step(*old(self), *old(w), *final(self), *final(w)),
                r is Ready && r->Ready_0 is Ok ==> r->Ready_0->Ok_0 <= buf@.len()
                    && final(self).wr_sink(*final(w)) == old(self).wr_sink(*old(w)) + buf@.subrange(0, r->Ready_0->Ok_0 as int),
                !(r is Ready && r->Ready_0 is Ok) ==> final(self).wr_sink(*final(w)) == old(self).wr_sink(*old(w));

        fn poll_flush(&mut self, cx: &mut crate::shims::std::task::Context<'_>, Tracked(w): Tracked<&mut World>) -> (r: crate::shims::std::task::Poll<io::Result<()>>)
            requires old(self).wr_inv(*old(w)),
            ensures
                // a failed flush may leave the writer closed (the async content writer drops its
                // data when msync fails): then only the frame on the file system is promised
                Self::wr_frame(*old(self), *old(w), *final(w)),
                !(r is Ready && r->Ready_0 is Err) ==> final(self).wr_inv(*final(w))
                    && Self::wr_step(*old(self), *old(w), *final(self), *final(w))
                    && final(self).wr_sink(*final(w)) == old(self).wr_sink(*old(w));

        /// poll_close (futures) / poll_shutdown (tokio): closes the writer; afterwards only the
        /// frame on the file system is promised
        // @FLAVOUR !tokio
        fn poll_close(&mut self, cx: &mut crate::shims::std::task::Context<'_>, Tracked(w): Tracked<&mut World>) -> (r: crate::shims::std::task::Poll<io::Result<()>>)
            requires old(self).wr_inv(*old(w)),
            ensures Self::wr_frame(*old(self), *old(w), *final(w));
        // @ENDFLAVOUR
        // @FLAVOUR tokio
        fn poll_shutdown(&mut self, cx: &mut crate::shims::std::task::Context<'_>, Tracked(w): Tracked<&mut World>) -> (r: crate::shims::std::task::Poll<io::Result<()>>)
            requires old(self).wr_inv(*old(w)),
            ensures Self::wr_frame(*old(self), *old(w), *final(w));
        // @ENDFLAVOUR

        #[verifier::external_body]
        fn write_all(&mut self, buf: &[u8], Tracked(w): Tracked<&mut World>) -> (r: io::Result<()>)
            requires old(self).wr_inv(*old(w)),
            ensures
                final(self).wr_inv(*final(w)),
                Self::wr_step(*old(self), *old(w), *final(self), *final(w)),
                r is Ok ==> final(self).wr_sink(*final(w)) == old(self).wr_sink(*old(w)) + buf@,
                r is Err ==> exists|k: int| 0 <= k <= buf@.len() && final(self).wr_sink(*final(w)) == old(self).wr_sink(*old(w)) + buf@.subrange(0, k),
        { unimplemented!() }
    }
}
