pub mod write_trait {
    use vstd::prelude::*;
    pub trait Write { }
}
