// ASSUMED CONTRACTS for walkdir, either, std::iter::once, HashSet collection
pub mod walkdir {
    use vstd::prelude::*;
    use crate::spec::*;
    use crate::shims::std::io;
    use crate::shims::std::path::{Path, PathArg};
    use crate::shims::iter::{Iter, IntoIterShim};

    #[verifier::external_body]
    pub struct WalkDir { w: u8 }
    /// the walk is specified over a snapshot of the file system taken when it is created
    /// (laziness — when directories are actually read relative to later mutations — is not modelled)
    pub struct WalkV { pub root: PathV, pub fs: Fs, pub healthy: bool }
    impl View for WalkDir { type V = WalkV; uninterp spec fn view(&self) -> WalkV; }
    #[verifier::external_body]
    pub struct DirEntry { e: u8 }
    pub struct DirEntryV { pub path: PathV, pub is_dir: bool }
    impl View for DirEntry { type V = DirEntryV; uninterp spec fn view(&self) -> DirEntryV; }
    #[verifier::external_body]
    pub struct FileType { f: u8 }
    impl View for FileType { type V = bool; uninterp spec fn view(&self) -> bool; }
    #[verifier::external_body]
    pub struct Error { e: u8 }
    pub type Result<T> = ::std::result::Result<T, Error>;

    /// the items a walk yields (root first, then everything below it, depth first)
    pub uninterp spec fn walk_items(wv: WalkV) -> Seq<Result<DirEntry>>;
    /// ASSUMED: what WalkDir (default options: no symlink following, no filtering) yields
    #[verifier::external_body]
    pub broadcast proof fn axiom_walk(wv: WalkV)
        ensures
            #![trigger walk_items(wv)]
            // sound: every entry lies at or below the root and its kind is what the file system says
            forall|i: int| 0 <= i < walk_items(wv).len() && (#[trigger] walk_items(wv)[i]) is Ok ==> {
                let e = walk_items(wv)[i]->Ok_0@;
                &&& under(e.path, wv.root)
                &&& (e.is_dir <==> wv.fs.dirs.contains(e.path))
                &&& (!e.is_dir ==> wv.fs.files.contains_key(e.path) || wv.fs.links.contains_key(e.path))
            },
            // complete and duplicate-free on a healthy file system
            wv.healthy ==> forall|i: int| 0 <= i < walk_items(wv).len() ==> (#[trigger] walk_items(wv)[i]) is Ok,
            wv.healthy ==> forall|p: PathV| #![trigger wv.fs.files.contains_key(p)] under(p, wv.root) && wv.fs.files.contains_key(p) ==>
                exists|i: int| 0 <= i < walk_items(wv).len() && (#[trigger] walk_items(wv)[i]) is Ok && walk_items(wv)[i]->Ok_0@.path == p,
            forall|i: int, j: int| 0 <= i < j < walk_items(wv).len() && (#[trigger] walk_items(wv)[i]) is Ok && (#[trigger] walk_items(wv)[j]) is Ok
                ==> walk_items(wv)[i]->Ok_0@.path != walk_items(wv)[j]->Ok_0@.path,
    {}

    impl WalkDir {
        #[verifier::external_body]
        pub fn new<A: PathArg>(root: A, Tracked(w): Tracked<&World>) -> (r: WalkDir)
            ensures r@ == (WalkV { root: root.pathv(), fs: w.fs, healthy: w.healthy })
        { unimplemented!() }
    }
    impl IntoIterShim<Result<DirEntry>> for WalkDir {
        #[verifier::external_body]
        fn into_iter_(self) -> (r: Iter<Result<DirEntry>>) ensures !r@.endless, r@.items == walk_items(self@) { unimplemented!() }
    }
    impl DirEntry {
        #[verifier::external_body]
        pub fn file_type(&self) -> (r: FileType) ensures r@ == self@.is_dir { unimplemented!() }
        #[verifier::external_body]
        pub fn path(&self) -> (r: &Path) ensures r@ == self@.path { unimplemented!() }
    }
    impl FileType {
        #[verifier::external_body]
        /// (the ghost world argument is accepted and ignored: the name-directed effects table
        /// cannot tell this `is_dir` from `Path::is_dir`)
        pub fn is_dir(&self, Tracked(w): Tracked<&crate::spec::World>) -> (r: bool) ensures r == self@ { unimplemented!() }
        #[verifier::external_body]
        pub fn is_file(&self, Tracked(w): Tracked<&crate::spec::World>) -> (r: bool) ensures r == !self@ { unimplemented!() }
    }
    impl Error {
        #[verifier::external_body]
        pub fn io_error(&self) -> (r: Option<&io::Error>) { unimplemented!() }
    }
}
pub mod either {
    use vstd::prelude::*;
    pub enum Either<L, R> { Left(L), Right(R) }
    pub use Either::{Left, Right};
    impl<U> crate::shims::iter::IterLike<U> for Either<crate::shims::iter::Iter<U>, crate::shims::iter::Iter<U>> {
        open spec fn iter_items(&self) -> Seq<U> { match self { Either::Left(a) => a@.items, Either::Right(b) => b@.items } }
        open spec fn iter_endless(&self) -> bool { match self { Either::Left(a) => a@.endless, Either::Right(b) => b@.endless } }
    }
}
