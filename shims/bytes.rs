// what std/ssri/digest accept as `impl AsRef<[u8]>`
pub mod bytes {
    use vstd::prelude::*;
    use crate::spec::*;
    pub trait BytesArg { spec fn bytes(&self) -> Seq<u8>; }
    impl<'a> BytesArg for &'a [u8] { open spec fn bytes(&self) -> Seq<u8> { self@ } }
    impl<'a> BytesArg for &'a Vec<u8> { open spec fn bytes(&self) -> Seq<u8> { self@ } }
    impl BytesArg for Vec<u8> { open spec fn bytes(&self) -> Seq<u8> { self@ } }
    impl<'a> BytesArg for &'a str { open spec fn bytes(&self) -> Seq<u8> { utf8(self@) } }
    impl<'a> BytesArg for &'a String { open spec fn bytes(&self) -> Seq<u8> { utf8(self@) } }
    impl<'a, 'b> BytesArg for &'a &'b [u8] { open spec fn bytes(&self) -> Seq<u8> { self@ } }
}
