// ASSUMED CONTRACTS for tempfile::NamedTempFile and memmap2::MmapMut
pub mod tempfile {
    use vstd::prelude::*;
    use crate::spec::*;
    use crate::shims::std::io;
    use crate::shims::std::fs::{File, FileV, OpenMode, file_write_post};
    use crate::shims::std::path::{Path, PathArg};

    /// tempfile::Builder: like NamedTempFile::new_in, but the file NAME contains the caller's
    /// prefix / suffix text - so nothing is known about the last path component
    #[verifier::external_body]
    pub struct Builder { b: u8 }
    impl Builder {
        #[verifier::external_body]
        pub fn new() -> (r: Builder) { unimplemented!() }
        #[verifier::external_body]
        pub fn prefix<S: ?Sized>(&mut self, p: &S) -> (r: &mut Builder) ensures *final(r) == *final(self) { unimplemented!() }
        #[verifier::external_body]
        pub fn suffix<S: ?Sized>(&mut self, p: &S) -> (r: &mut Builder) ensures *final(r) == *final(self) { unimplemented!() }
        #[verifier::external_body]
        pub fn tempfile_in<A: PathArg>(&self, dir: A, Tracked(w): Tracked<&mut World>) -> (r: io::Result<NamedTempFile>)
            ensures
                old(w).healthy == final(w).healthy, world_wf(*old(w)) ==> world_wf(*final(w)), hist_ext(*old(w), *final(w)),
                r is Err ==> final(w).fs == old(w).fs && final(w).hist == old(w).hist,
                r is Ok ==> {
                    let p = r->Ok_0@;
                    &&& parent_of(p) == dir.pathv() && p.comps.len() == dir.pathv().comps.len() + 1
                    &&& !exists_at(old(w).fs, p)
                    &&& final(w).fs == (Fs { files: old(w).fs.files.insert(p, Seq::<u8>::empty()), ..old(w).fs })
                    &&& final(w).hist == old(w).hist.push(final(w).fs)
                    &&& tmp_pos(r->Ok_0) == 0
                },
        { unimplemented!() }
    }
    #[verifier::external_body]
    pub struct NamedTempFile { f: u8 }
    /// the path of the temporary file (fixed for the life of the handle)
    impl View for NamedTempFile { type V = PathV; uninterp spec fn view(&self) -> PathV; }
    pub struct PersistError { pub error: io::Error, pub file: NamedTempFile }

    /// the descriptor view of a temp file handle: read+write, not O_APPEND; `pos` is the
    /// number of bytes written through it so far
    pub uninterp spec fn tmp_pos(t: NamedTempFile) -> int;
    /// std::env::temp_dir(): some directory about which nothing is known
    pub uninterp spec fn system_temp_dir() -> PathV;
    pub open spec fn tmp_mode() -> OpenMode { OpenMode { read: true, write: true, append: false, create: true, truncate: false } }

    impl NamedTempFile {
        /// ASSUMED: creates an EMPTY regular file with a FRESH random plain name directly
        /// inside `dir` (O_EXCL): nothing existed at that path before.  Deletion of the file
        /// when the handle is dropped is NOT modelled (see C14 in DESIGN.md).
        #[verifier::external_body]
        pub fn new_in<A: PathArg>(dir: A, Tracked(w): Tracked<&mut World>) -> (r: io::Result<NamedTempFile>)
            ensures
                old(w).healthy == final(w).healthy,
                world_wf(*old(w)) ==> world_wf(*final(w)),
                hist_ext(*old(w), *final(w)),
                r is Err ==> final(w).fs == old(w).fs && final(w).hist == old(w).hist,
                r is Ok ==> {
                    let p = r->Ok_0@;
                    &&& parent_of(p) == dir.pathv() && p.comps.len() == dir.pathv().comps.len() + 1
                    &&& is_plain(p.comps.last())
                    &&& !exists_at(old(w).fs, p)
                    &&& final(w).fs == (Fs { files: old(w).fs.files.insert(p, Seq::<u8>::empty()), ..old(w).fs })
                    &&& final(w).hist == old(w).hist.push(final(w).fs)
                    &&& tmp_pos(r->Ok_0) == 0
                },
                old(w).healthy && old(w).fs.dirs.contains(dir.pathv()) ==> r is Ok,
        { unimplemented!() }

        /// NamedTempFile::new(): like new_in(std::env::temp_dir()) — a file OUTSIDE any cache
        #[verifier::external_body]
        pub fn new(Tracked(w): Tracked<&mut World>) -> (r: io::Result<NamedTempFile>)
            ensures
                old(w).healthy == final(w).healthy, world_wf(*old(w)) ==> world_wf(*final(w)), hist_ext(*old(w), *final(w)),
                r is Err ==> final(w).fs == old(w).fs && final(w).hist == old(w).hist,
                r is Ok ==> {
                    let p = r->Ok_0@;
                    &&& parent_of(p) == system_temp_dir()
                    &&& !exists_at(old(w).fs, p)
                    &&& final(w).fs == (Fs { files: old(w).fs.files.insert(p, Seq::<u8>::empty()), ..old(w).fs })
                    &&& final(w).hist == old(w).hist.push(final(w).fs)
                    &&& tmp_pos(r->Ok_0) == 0
                },
        { unimplemented!() }
        /// ASSUMED: one atomic rename(2) that replaces `dest`; on failure nothing changes and
        /// the handle comes back in the error
        #[verifier::external_body]
        pub fn persist<A: PathArg>(self, dest: A, Tracked(w): Tracked<&mut World>) -> (r: ::std::result::Result<File, PersistError>)
            requires old(w).fs.files.contains_key(self@)
            ensures
                old(w).healthy == final(w).healthy,
                world_wf(*old(w)) ==> world_wf(*final(w)),
                hist_ext(*old(w), *final(w)),
                r is Ok ==> final(w).fs == (Fs {
                        files: old(w).fs.files.remove(self@).insert(dest.pathv(), old(w).fs.files[self@]),
                        links: old(w).fs.links.remove(dest.pathv()), ..old(w).fs })
                    && final(w).hist == old(w).hist.push(final(w).fs),
                r is Err ==> final(w).fs == old(w).fs && final(w).hist == old(w).hist && r->Err_0.file@ == self@,
                old(w).healthy && old(w).fs.dirs.contains(parent_of(dest.pathv())) && !old(w).fs.dirs.contains(dest.pathv()) ==> r is Ok,
        { unimplemented!() }

        /// like persist, but fails (AlreadyExists) when something exists at `dest`
        #[verifier::external_body]
        pub fn persist_noclobber<A: PathArg>(self, dest: A, Tracked(w): Tracked<&mut World>) -> (r: ::std::result::Result<File, PersistError>)
            requires old(w).fs.files.contains_key(self@)
            ensures
                old(w).healthy == final(w).healthy,
                world_wf(*old(w)) ==> world_wf(*final(w)),
                hist_ext(*old(w), *final(w)),
                r is Ok ==> !exists_at(old(w).fs, dest.pathv()) && final(w).fs == (Fs {
                        files: old(w).fs.files.remove(self@).insert(dest.pathv(), old(w).fs.files[self@]), ..old(w).fs })
                    && final(w).hist == old(w).hist.push(final(w).fs),
                r is Err ==> final(w).fs == old(w).fs && final(w).hist == old(w).hist && r->Err_0.file@ == self@,
        { unimplemented!() }

        #[verifier::external_body]
        pub fn path(&self) -> (r: &Path) ensures r@ == self@ { unimplemented!() }

        /// the underlying descriptor (read+write, not append)
        #[verifier::external_body]
        pub fn as_file(&self) -> (r: &File) ensures r@.path == self@, r@.mode == tmp_mode() { unimplemented!() }
    }

    impl io::Write for NamedTempFile {
        open spec fn wr_inv(&self, w: World) -> bool { w.fs.files.contains_key(self@) }
        open spec fn wr_sink(&self, w: World) -> Seq<u8> { w.fs.files[self@] }
        open spec fn wr_step(pre_s: Self, pre: World, post_s: Self, post: World) -> bool {
            &&& post_s@ == pre_s@
            &&& same_except(pre.fs, post.fs, pre_s@) && post.fs.dirs == pre.fs.dirs
            &&& post.healthy == pre.healthy && hist_ext(pre, post) && (world_wf(pre) ==> world_wf(post))
        }
        #[verifier::external_body]
        proof fn wr_step_refl(s: Self, w: World) {}
        #[verifier::external_body]
        proof fn wr_step_trans(a: Self, wa: World, b: Self, wb: World, c: Self, wc: World) {}

        /// write(2) at the handle's offset.  Specified only when that offset is the end of the
        /// file (true as long as every write to the file goes through this handle): the file
        /// grows by the accepted prefix.  Otherwise (e.g. a pre-allocated file) the file's new
        /// content is unspecified.
        #[verifier::external_body]
        fn write(&mut self, buf: &[u8], Tracked(w): Tracked<&mut World>) -> (r: io::Result<usize>)
            ensures
                final(self)@ == old(self)@,
                final(w).healthy == old(w).healthy, hist_ext(*old(w), *final(w)), world_wf(*old(w)) ==> world_wf(*final(w)),
                // ASSUMED: a file never grows beyond usize::MAX bytes
                r is Ok ==> final(w).fs.files[old(self)@].len() <= usize::MAX,
                r is Ok ==> r->Ok_0 <= buf@.len() && tmp_pos(*final(self)) == tmp_pos(*old(self)) + r->Ok_0
                    && final(w).fs.files.contains_key(old(self)@) && same_except(old(w).fs, final(w).fs, old(self)@) && final(w).fs.dirs == old(w).fs.dirs,
                r is Ok && tmp_pos(*old(self)) == old(w).fs.files[old(self)@].len() ==>
                    final(w).fs == (Fs { files: old(w).fs.files.insert(old(self)@, old(w).fs.files[old(self)@] + buf@.subrange(0, r->Ok_0 as int)), ..old(w).fs }),
                r is Ok && old(w).healthy ==> r->Ok_0 == buf@.len(),
                r is Err ==> final(w).fs == old(w).fs && tmp_pos(*final(self)) == tmp_pos(*old(self)),
                old(w).healthy ==> r is Ok,
                // intermediate states: the file holds its old bytes plus a prefix of what was accepted
                forall|i: int| #![trigger final(w).hist[i]] old(w).hist.len() <= i < final(w).hist.len() ==>
                    same_except(old(w).fs, final(w).hist[i], old(self)@) && final(w).hist[i].dirs == old(w).fs.dirs && final(w).hist[i].files.contains_key(old(self)@),
        { unimplemented!() }
        #[verifier::external_body]
        fn flush(&mut self, Tracked(w): Tracked<&mut World>) -> (r: io::Result<()>)
            ensures *final(self) == *old(self), *final(w) == *old(w), old(w).healthy ==> r is Ok,
        { unimplemented!() }
    }
}
pub mod memmap2 {
    use vstd::prelude::*;
    use crate::spec::*;
    /// a writable shared mapping of the whole file `path`, `len` bytes long
    #[verifier::external_body]
    pub struct MmapMut { m: u8 }
    pub struct MmapV { pub path: PathV, pub len: nat }
    impl View for MmapMut { type V = MmapV; uninterp spec fn view(&self) -> MmapV; }
    /// reading through the mapping (`&m[a..b]`): the bytes are those of the mapped file, which
    /// live in the ghost world; without a world argument nothing but the length is known here
    impl ::std::ops::Deref for MmapMut {
        type Target = [u8];
        #[verifier::external_body]
        fn deref(&self) -> (r: &[u8]) ensures r@.len() == self@.len { unimplemented!() }
    }
    impl MmapMut {
        /// msync(MS_ASYNC): schedules write-back; the file's content as seen by read(2) is
        /// already that of the mapping, so nothing changes in the model
        #[verifier::external_body]
        pub fn flush_async(&self) -> (r: crate::shims::std::io::Result<()>) { unimplemented!() }
        #[verifier::external_body]
        pub fn len(&self) -> (r: usize) ensures r == self@.len { unimplemented!() }
        /// (unsafe in memmap2; R9' drops the keyword)  ASSUMED: maps the whole file read/write;
        /// mapping a regular file that was just pre-allocated does not fail
        #[verifier::external_body]
        pub fn map_mut(f: &crate::shims::std::fs::File, Tracked(w): Tracked<&crate::spec::World>) -> (r: crate::shims::std::io::Result<MmapMut>)
            requires w.fs.files.contains_key(f@.path)
            ensures r is Ok, r->Ok_0@ == (MmapV { path: f@.path, len: w.fs.files[f@.path].len() })
        { unimplemented!() }
    }
}
