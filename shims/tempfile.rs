// ASSUMED CONTRACTS for tempfile::NamedTempFile and memmap2::MmapMut
pub mod tempfile {
    use vstd::prelude::*;
    use crate::spec::*;
    #[verifier::external_body]
    pub struct NamedTempFile { f: u8 }
    /// the path of the temporary file (fixed for the life of the handle)
    impl View for NamedTempFile { type V = PathV; uninterp spec fn view(&self) -> PathV; }
}
pub mod memmap2 {
    use vstd::prelude::*;
    #[verifier::external_body]
    pub struct MmapMut { m: u8 }
}
