// ASSUMED CONTRACTS for the `ssri` crate (9.2), read off its source
pub mod ssri {
    use vstd::prelude::*;
    use crate::spec::*;

    #[derive(Clone, Copy)]
    pub enum Algorithm { Sha512, Sha384, Sha256, Sha1, Xxh3 }
    impl View for Algorithm {
        type V = AlgoV;
        open spec fn view(&self) -> AlgoV {
            match self {
                Algorithm::Sha512 => AlgoV::Sha512,
                Algorithm::Sha384 => AlgoV::Sha384,
                Algorithm::Sha256 => AlgoV::Sha256,
                Algorithm::Sha1 => AlgoV::Sha1,
                Algorithm::Xxh3 => AlgoV::Xxh3,
            }
        }
    }
    impl Algorithm {
        /// Display
        #[verifier::external_body]
        pub fn to_string(&self) -> (r: String) ensures r@ == algo_name(self@) { unimplemented!() }
    }

    impl ::std::cmp::PartialEq for Algorithm {
        fn eq(&self, other: &Self) -> (r: bool) {
            match (self, other) {
                (Algorithm::Sha512, Algorithm::Sha512) => true,
                (Algorithm::Sha384, Algorithm::Sha384) => true,
                (Algorithm::Sha256, Algorithm::Sha256) => true,
                (Algorithm::Sha1, Algorithm::Sha1) => true,
                (Algorithm::Xxh3, Algorithm::Xxh3) => true,
                _ => false,
            }
        }
    }
    impl vstd::std_specs::cmp::PartialEqSpecImpl for Algorithm {
        open spec fn obeys_eq_spec() -> bool { true }
        open spec fn eq_spec(&self, other: &Self) -> bool { *self == *other }
    }
    /// one `<algorithm>-<base64 digest>` element.  Its relation to the abstract view of the
    /// whole Integrity is not specified (code that starts inspecting hashes gets no facts)
    pub struct Hash { pub algorithm: Algorithm, pub digest: String }
    /// the public `hashes` field exists as in ssri; the view is an uninterpreted function of it
    pub struct Integrity { pub hashes: Vec<Hash> }
    impl View for Integrity { type V = SriV; uninterp spec fn view(&self) -> SriV; }
    impl Clone for Integrity {
        #[verifier::external_body]
        fn clone(&self) -> (r: Self) ensures r@ == self@ { unimplemented!() }
    }

    /// ssri::Error — only the variant cacache constructs is given a shape
    pub enum Error {
        ParseIntegrityError(String),
        IntegrityCheckError(Integrity, Integrity),
        HexDecodeError,
        SizeMismatch,
    }

    #[verifier::external]
    impl ::std::fmt::Debug for Error { fn fmt(&self, f: &mut ::std::fmt::Formatter<'_>) -> ::std::fmt::Result { Ok(()) } }
    impl Integrity {
        /// ssri `Integrity::from(data)`: the SHA-256 address of `data`
        #[verifier::external_body]
        pub fn from<B: crate::shims::bytes::BytesArg>(data: B) -> (r: Integrity)
            ensures r@ == digest_of(AlgoV::Sha256, data.bytes()), sri_wf(r@)
        { unimplemented!() }
        /// the strongest algorithm present (panics on an empty value, like `to_hex`)
        #[verifier::external_body]
        pub fn pick_algorithm(&self) -> (r: Algorithm)
            requires sri_wf(self@)
            ensures r@ == sri_algo(self@)
        { unimplemented!() }
        /// ssri: `pick_algorithm` indexes hashes[0] and `to_hex` unwraps a base64 decode:
        /// both panic unless the value is well-formed
        #[verifier::external_body]
        pub fn to_hex(&self) -> (r: (Algorithm, String))
            requires sri_wf(self@)
            ensures r.0@ == sri_algo(self@), r.1@ == sri_hex(self@)
        { unimplemented!() }
        #[verifier::external_body]
        pub fn check<D: crate::shims::bytes::BytesArg>(&self, data: D) -> (r: ::std::result::Result<Algorithm, Error>)
            requires sri_nonempty(self@)
            ensures r is Ok <==> sri_matches(self@, data.bytes())
        { unimplemented!() }
        #[verifier::external_body]
        pub fn matches(&self, other: &Integrity) -> (r: Option<Algorithm>)
            requires sri_nonempty(other@)
            ensures r is Some <==> sri_match_sri(self@, other@)
        { unimplemented!() }
        /// Display
        #[verifier::external_body]
        pub fn to_string(&self) -> (r: String) ensures r@ == sri_string(self@) { unimplemented!() }
    }

    /// FromStr of Integrity, as an exec-typed spec function.  ssri: accepts the empty string
    /// (no hashes) and digests that are not base64; rejects unknown algorithm names.
    pub uninterp spec fn parse_integrity(text: Seq<char>) -> Option<Integrity>;
    impl ::std::str::FromStr for Integrity {
        type Err = Error;
        #[verifier::external_body]
        fn from_str(s: &str) -> (r: ::std::result::Result<Integrity, Error>)
            ensures (r is Ok) == (parse_integrity(s@) is Some), r is Ok ==> r->Ok_0 == parse_integrity(s@)->Some_0
        { unimplemented!() }
    }
    /// ASSUMED: Display then FromStr is the identity on well-formed values, and the
    /// placeholder "sha1-deadbeef" that `index::insert` returns for a removal parses
    #[verifier::external_body]
    pub broadcast proof fn axiom_parse_display(i: Integrity)
        ensures #![trigger sri_string(i@)] parse_integrity(sri_string(i@)) is Some && parse_integrity(sri_string(i@))->Some_0@ == i@
    {}
    #[verifier::external_body]
    pub broadcast proof fn axiom_parse_deadbeef()
        ensures #[trigger] parse_integrity("sha1-deadbeef"@) is Some
    {}

    /// `#[derive(PartialEq)]` of ssri::Integrity: equal values have equal views (nothing is
    /// assumed about unequal ones)
    pub uninterp spec fn integrity_same(a: Integrity, b: Integrity) -> bool;
    impl ::std::cmp::PartialEq for Integrity {
        #[verifier::external_body]
        fn eq(&self, other: &Self) -> (r: bool) { unimplemented!() }
    }
    impl vstd::std_specs::cmp::PartialEqSpecImpl for Integrity {
        open spec fn obeys_eq_spec() -> bool { true }
        open spec fn eq_spec(&self, other: &Self) -> bool { integrity_same(*self, *other) }
    }
    #[verifier::external_body]
    pub broadcast proof fn axiom_integrity_same(a: Integrity, b: Integrity)
        ensures #[trigger] integrity_same(a, b) ==> a@ == b@
    {}

    pub broadcast group group_ssri_axioms { axiom_parse_display, axiom_parse_deadbeef, axiom_integrity_same }

    #[verifier::external_body]
    pub struct IntegrityChecker { i: u8 }
    pub struct CheckerV { pub sri: SriV, pub fed: Seq<u8> }
    impl View for IntegrityChecker { type V = CheckerV; uninterp spec fn view(&self) -> CheckerV; }
    impl IntegrityChecker {
        /// `new` calls `pick_algorithm` (panics on an empty hash list)
        #[verifier::external_body]
        pub fn new(sri: Integrity) -> (r: Self)
            requires sri_nonempty(sri@)
            ensures r@ == (CheckerV { sri: sri@, fed: Seq::empty() })
        { unimplemented!() }
        #[verifier::external_body]
        pub fn input(&mut self, data: &[u8])
            ensures final(self)@ == (CheckerV { sri: old(self)@.sri, fed: old(self)@.fed + data@ })
        { unimplemented!() }
        #[verifier::external_body]
        pub fn result(self) -> (r: ::std::result::Result<Algorithm, Error>)
            ensures r is Ok <==> sri_matches(self@.sri, self@.fed)
        { unimplemented!() }
    }

    #[verifier::external_body]
    pub struct IntegrityOpts { i: u8 }
    /// `algos`: algorithms selected so far (ssri computes one hash per selected algorithm;
    /// cacache selects exactly one), `fed`: bytes hashed so far
    pub struct BuilderV { pub algos: Seq<AlgoV>, pub fed: Seq<u8> }
    impl View for IntegrityOpts { type V = BuilderV; uninterp spec fn view(&self) -> BuilderV; }
    impl IntegrityOpts {
        #[verifier::external_body]
        pub fn new() -> (r: Self) ensures r@ == (BuilderV { algos: Seq::empty(), fed: Seq::empty() }) { unimplemented!() }
        #[verifier::external_body]
        pub fn algorithm(self, a: Algorithm) -> (r: Self)
            ensures r@ == (BuilderV { algos: self@.algos.push(a@), fed: self@.fed })
        { unimplemented!() }
        #[verifier::external_body]
        pub fn input(&mut self, data: &[u8])
            ensures final(self)@ == (BuilderV { algos: old(self)@.algos, fed: old(self)@.fed + data@ })
        { unimplemented!() }
        /// only the single-algorithm case is specified
        #[verifier::external_body]
        pub fn result(self) -> (r: Integrity)
            ensures self@.algos.len() == 1 ==> r@ == digest_of(self@.algos[0], self@.fed)
        { unimplemented!() }
    }
}
