// R4: an error/context message.  Its text is opaque; its explicit arguments are still
// evaluated (so a panic inside an argument expression remains an obligation).
macro_rules! opaque_msg {
    () => { crate::shims::fmt::opaque_msg() };
    ($($arg:expr),+ $(,)?) => { { $( let _ = &$arg; )+ crate::shims::fmt::opaque_msg() } };
}
// assert! / debug_assert! (message arguments are dropped) and unreachable!: panics = obligations
macro_rules! rt_assert {
    ($c:expr $(, $($rest:tt)*)?) => { crate::shims::rt_assert($c) };
}
macro_rules! rt_unreachable {
    ($($rest:tt)*) => { crate::shims::rt_unreachable() };
}
// futures::ready!
macro_rules! futures_ready {
    ($e:expr $(,)?) => {
        match $e {
            crate::shims::std::task::Poll::Ready(t) => t,
            crate::shims::std::task::Poll::Pending => return crate::shims::std::task::Poll::Pending,
        }
    };
}
