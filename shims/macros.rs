// R4: an error/context message.  Its text is opaque; its explicit arguments are still
// evaluated (so a panic inside an argument expression remains an obligation).
macro_rules! opaque_msg {
    () => { crate::shims::fmt::opaque_msg() };
    ($($arg:expr),+ $(,)?) => { { $( let _ = &$arg; )+ crate::shims::fmt::opaque_msg() } };
}
// futures::ready!
macro_rules! futures_ready {
    ($e:expr $(,)?) => {
        match $e {
            crate::shims::std::task::Poll::Ready(t) => t,
            crate::shims::std::task::Poll::Pending => return crate::shims::std::task::Poll::Pending,
        }
    };
}
