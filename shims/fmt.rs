// R4 support: what rustc's expansion of a `format!` with only `{}`/`{IDENT}`
// placeholders computes, as a builder.  ASSUMED: Display of str/String is the text itself.
pub mod fmt {
    use vstd::prelude::*;
    pub trait Disp { spec fn disp(&self) -> Seq<char>; }
    impl<'a> Disp for &'a str { open spec fn disp(&self) -> Seq<char> { self@ } }
    impl Disp for String { open spec fn disp(&self) -> Seq<char> { self@ } }
    impl<'a> Disp for &'a String { open spec fn disp(&self) -> Seq<char> { self@ } }
    // every other displayable value the crate formats: SOME text, a function of the value (nothing
    // more is assumed) - so that a `format!` that moves out of an error-context closure into a
    // helper function still extracts
    impl Disp for crate::shims::std::path::Display { uninterp spec fn disp(&self) -> Seq<char>; }
    impl Disp for crate::shims::std::io::Error { uninterp spec fn disp(&self) -> Seq<char>; }
    impl Disp for crate::shims::std::io::ErrorKind { uninterp spec fn disp(&self) -> Seq<char>; }
    impl Disp for crate::shims::ssri::Integrity { uninterp spec fn disp(&self) -> Seq<char>; }
    impl Disp for crate::shims::ssri::Algorithm { uninterp spec fn disp(&self) -> Seq<char>; }
    impl Disp for bool { uninterp spec fn disp(&self) -> Seq<char>; }
    impl Disp for char { uninterp spec fn disp(&self) -> Seq<char>; }
    impl Disp for u8 { uninterp spec fn disp(&self) -> Seq<char>; }
    impl Disp for u16 { uninterp spec fn disp(&self) -> Seq<char>; }
    impl Disp for u32 { uninterp spec fn disp(&self) -> Seq<char>; }
    impl Disp for u64 { uninterp spec fn disp(&self) -> Seq<char>; }
    impl Disp for u128 { uninterp spec fn disp(&self) -> Seq<char>; }
    impl Disp for usize { uninterp spec fn disp(&self) -> Seq<char>; }
    impl Disp for i32 { uninterp spec fn disp(&self) -> Seq<char>; }
    impl Disp for i64 { uninterp spec fn disp(&self) -> Seq<char>; }
    impl Disp for isize { uninterp spec fn disp(&self) -> Seq<char>; }
    #[verifier::external_body]
    pub struct Fmt { s: String }
    impl View for Fmt { type V = Seq<char>; uninterp spec fn view(&self) -> Seq<char>; }
    impl Fmt {
        #[verifier::external_body]
        pub fn new() -> (r: Fmt) ensures r@ == Seq::<char>::empty() { unimplemented!() }
        #[verifier::external_body]
        pub fn lit0(self, s: &str) -> (r: Fmt) requires self@.len() == 0 ensures r@ == s@ { unimplemented!() }
        #[verifier::external_body]
        pub fn arg0<T: Disp>(self, t: &T) -> (r: Fmt) requires self@.len() == 0 ensures r@ == t.disp() { unimplemented!() }
        #[verifier::external_body]
        pub fn lit(self, s: &str) -> (r: Fmt) ensures r@ == self@ + s@ { unimplemented!() }
        #[verifier::external_body]
        pub fn arg<T: Disp>(self, t: &T) -> (r: Fmt) ensures r@ == self@ + t.disp() { unimplemented!() }
        #[verifier::external_body]
        pub fn done(self) -> (r: String) ensures r@ == self@ { unimplemented!() }
    }
    /// an error/context message: its text is never inspected by any property
    #[verifier::external_body]
    pub fn opaque_msg() -> String { String::new() }
}
