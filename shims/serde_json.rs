// ASSUMED CONTRACTS for serde_json (+ the derive-generated Serialize/Deserialize of
// index::SerializableMetadata — see the `JsonSer`/`JsonDe` impls woven next to the struct)
pub mod serde_json {
    use vstd::prelude::*;
    #[verifier::external_body]
    pub struct Error { e: u8 }
    #[verifier::external]
    impl ::std::fmt::Debug for Error { fn fmt(&self, f: &mut ::std::fmt::Formatter<'_>) -> ::std::fmt::Result { Ok(()) } }
    /// an arbitrary JSON value; nothing about its structure is needed
    pub enum Value { Null, Other(ValueOpaque) }
    #[verifier::external_body]
    pub struct ValueOpaque { v: u8 }
    impl Clone for Value {
        #[verifier::external_body]
        fn clone(&self) -> (r: Self) ensures r == *self { unimplemented!() }
    }
    /// structural equality of JSON values (ASSUMED to coincide with spec equality)
    impl ::std::cmp::PartialEq for Value {
        #[verifier::external_body]
        fn eq(&self, other: &Self) -> (r: bool) { unimplemented!() }
    }
    impl vstd::std_specs::cmp::PartialEqSpecImpl for Value {
        open spec fn obeys_eq_spec() -> bool { true }
        open spec fn eq_spec(&self, other: &Self) -> bool { *self == *other }
    }
    impl Value {
        #[verifier::external_body]
        pub fn is_null(&self) -> (r: bool) ensures r == (*self is Null) { unimplemented!() }
    }
    /// what `serde_json::to_string(&x)` produces for x: the JSON text
    pub trait JsonSer { spec fn json(&self) -> Seq<char>; }
    /// a string serialises to its JSON string literal (quotes and escapes: uninterpreted)
    pub uninterp spec fn json_str(s: Seq<char>) -> Seq<char>;
    impl JsonSer for str { open spec fn json(&self) -> Seq<char> { json_str(self@) } }
    impl JsonSer for String { open spec fn json(&self) -> Seq<char> { json_str(self@) } }
    /// what `serde_json::from_str::<Self>(text)` produces
    pub trait JsonDe: Sized { spec fn from_json(text: Seq<char>) -> Option<Self>; }
    /// ASSUMED: serialising a struct of strings/integers/Value/bytes cannot fail
    #[verifier::external_body]
    pub fn to_string<T: JsonSer + ?Sized>(v: &T) -> (r: ::std::result::Result<String, Error>)
        ensures r is Ok, r->Ok_0@ == v.json()
    { unimplemented!() }
    #[verifier::external_body]
    pub fn from_str<T: JsonDe>(s: &str) -> (r: ::std::result::Result<T, Error>)
        ensures r is Ok <==> T::from_json(s@) is Some, r is Ok ==> r->Ok_0 == T::from_json(s@)->Some_0
    { unimplemented!() }
}
