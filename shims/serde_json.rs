// ASSUMED CONTRACTS for serde_json (+ the derive-generated Serialize/Deserialize of
// index::SerializableMetadata)
pub mod serde_json {
    use vstd::prelude::*;
    #[verifier::external_body]
    pub struct Error { e: u8 }
    /// an arbitrary JSON value; nothing about its structure is needed
    #[verifier::external_body]
    pub struct Value { v: u8 }
}
