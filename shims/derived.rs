// ASSUMED: impls that derive macros generate in /repo (thiserror `#[from]`)
pub mod derived {
    use vstd::prelude::*;
    impl ::std::convert::From<crate::shims::ssri::Error> for crate::errors::Error {
        fn from(e: crate::shims::ssri::Error) -> (r: crate::errors::Error)
            ensures r == crate::errors::Error::IntegrityError(e)
        { crate::errors::Error::IntegrityError(e) }
    }
    impl vstd::std_specs::convert::FromSpecImpl<crate::shims::ssri::Error> for crate::errors::Error {
        open spec fn obeys_from_spec() -> bool { true }
        open spec fn from_spec(e: crate::shims::ssri::Error) -> crate::errors::Error { crate::errors::Error::IntegrityError(e) }
    }
}
