// ASSUMED CONTRACTS for sha1 / sha2 / digest / hex
pub mod digest {
    pub trait Digest { }
}
pub mod sha1 {
    use vstd::prelude::*;
    use crate::spec::*;
    use crate::shims::bytes::BytesArg;
    #[verifier::external_body] pub struct Sha1 { s: u8 }
    impl View for Sha1 { type V = Seq<u8>; uninterp spec fn view(&self) -> Seq<u8>; }
    pub type Output20 = [u8; 20];
    impl Sha1 {
        #[verifier::external_body]
        pub fn new() -> (r: Sha1) ensures r@ == Seq::<u8>::empty() { unimplemented!() }
        #[verifier::external_body]
        pub fn update<D: BytesArg>(&mut self, data: D) ensures final(self)@ == old(self)@ + data.bytes() { unimplemented!() }
        #[verifier::external_body]
        pub fn finalize(self) -> (r: Output20) ensures r@ == sha1_raw(self@) { unimplemented!() }
        #[verifier::external_body]
        pub fn digest<D: BytesArg>(data: D) -> (r: Output20) ensures r@ == sha1_raw(data.bytes()) { unimplemented!() }
    }
}
pub mod sha2 {
    use vstd::prelude::*;
    use crate::spec::*;
    use crate::shims::bytes::BytesArg;
    #[verifier::external_body] pub struct Sha256 { s: u8 }
    impl View for Sha256 { type V = Seq<u8>; uninterp spec fn view(&self) -> Seq<u8>; }
    pub type Output32 = [u8; 32];
    impl Sha256 {
        #[verifier::external_body]
        pub fn new() -> (r: Sha256) ensures r@ == Seq::<u8>::empty() { unimplemented!() }
        #[verifier::external_body]
        pub fn update<D: BytesArg>(&mut self, data: D) ensures final(self)@ == old(self)@ + data.bytes() { unimplemented!() }
        #[verifier::external_body]
        pub fn finalize(self) -> (r: Output32) ensures r@ == sha256_raw(self@) { unimplemented!() }
        /// Digest::digest(data) == new + update + finalize
        #[verifier::external_body]
        pub fn digest<D: BytesArg>(data: D) -> (r: Output32) ensures r@ == sha256_raw(data.bytes()) { unimplemented!() }
    }
}
pub mod hex {
    use vstd::prelude::*;
    use crate::spec::*;
    pub trait HexArg { spec fn hex_bytes(&self) -> Seq<u8>; }
    impl<const N: usize> HexArg for [u8; N] { open spec fn hex_bytes(&self) -> Seq<u8> { self@ } }
    impl<'a> HexArg for &'a [u8] { open spec fn hex_bytes(&self) -> Seq<u8> { self@ } }
    impl<'a> HexArg for &'a Vec<u8> { open spec fn hex_bytes(&self) -> Seq<u8> { self@ } }
    #[verifier::external_body]
    pub fn encode<T: HexArg>(t: T) -> (r: String) ensures r@ == hex_of(t.hex_bytes()) { unimplemented!() }
    #[verifier::external_body]
    pub struct FromHexError { e: u8 }
    /// hex::decode / decode_to_slice: accept upper AND lower case digits (results otherwise unconstrained)
    #[verifier::external_body]
    pub fn decode<T: crate::shims::bytes::BytesArg>(t: T) -> (r: ::std::result::Result<Vec<u8>, FromHexError>) { unimplemented!() }
    #[verifier::external_body]
    pub fn decode_to_slice<T: crate::shims::bytes::BytesArg>(t: T, out: &mut [u8]) -> (r: ::std::result::Result<(), FromHexError>)
        ensures final(out)@.len() == old(out)@.len()
    { unimplemented!() }
}
