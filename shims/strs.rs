// R15 support: `&s[a..b]` on str/String.  ASSUMED (std): panics unless the range is in
// bounds and on char boundaries; here strengthened to "the string is ASCII" so that byte
// offsets and char offsets coincide.
pub mod strs {
    use vstd::prelude::*;
    pub open spec fn all_ascii(s: Seq<char>) -> bool { forall|i: int| 0 <= i < s.len() ==> (#[trigger] s[i] as u32) < 128 }
    pub trait StrLike { spec fn chars(&self) -> Seq<char>; }
    impl StrLike for String { open spec fn chars(&self) -> Seq<char> { self@ } }
    impl StrLike for str { open spec fn chars(&self) -> Seq<char> { self@ } }
    impl<'a> StrLike for &'a str { open spec fn chars(&self) -> Seq<char> { self@ } }
    #[verifier::external_body]
    pub fn slice<'a, S: StrLike + ?Sized>(s: &'a S, a: usize, b: usize) -> (r: &'a str)
        requires all_ascii(s.chars()), a <= b <= s.chars().len()
        ensures r@ == s.chars().subrange(a as int, b as int)
    { unimplemented!() }
    #[verifier::external_body]
    pub fn slice_from<'a, S: StrLike + ?Sized>(s: &'a S, a: usize) -> (r: &'a str)
        requires all_ascii(s.chars()), a <= s.chars().len()
        ensures r@ == s.chars().subrange(a as int, s.chars().len() as int)
    { unimplemented!() }
    #[verifier::external_body]
    pub fn slice_to<'a, S: StrLike + ?Sized>(s: &'a S, b: usize) -> (r: &'a str)
        requires all_ascii(s.chars()), b <= s.chars().len()
        ensures r@ == s.chars().subrange(0, b as int)
    { unimplemented!() }

    /// R10: `s.split(c)` with a char pattern (std: n occurrences give n+1 pieces)
    pub trait SplitShim {
        fn split_<'a>(&'a self, c: char) -> crate::shims::iter::Iter<&'a str>;
        /// R10: `str::lines()` — the lines of an in-memory string (items unconstrained here)
        fn lines_<'a>(&'a self) -> crate::shims::iter::Iter<&'a str>;
    }
    impl SplitShim for String {
        #[verifier::external_body]
        fn lines_<'a>(&'a self) -> (r: crate::shims::iter::Iter<&'a str>) ensures !r@.endless { unimplemented!() }
        #[verifier::external_body]
        fn split_<'a>(&'a self, c: char) -> (r: crate::shims::iter::Iter<&'a str>)
            ensures !r@.endless, r@.items.len() == crate::spec::split_at(self@, c).len(),
                forall|i: int| 0 <= i < r@.items.len() ==> (#[trigger] r@.items[i])@ == crate::spec::split_at(self@, c)[i],
        { unimplemented!() }
    }
    impl SplitShim for str {
        #[verifier::external_body]
        fn lines_<'a>(&'a self) -> (r: crate::shims::iter::Iter<&'a str>) ensures !r@.endless { unimplemented!() }
        #[verifier::external_body]
        fn split_<'a>(&'a self, c: char) -> (r: crate::shims::iter::Iter<&'a str>)
            ensures !r@.endless, r@.items.len() == crate::spec::split_at(self@, c).len(),
                forall|i: int| 0 <= i < r@.items.len() ==> (#[trigger] r@.items[i])@ == crate::spec::split_at(self@, c)[i],
        { unimplemented!() }
    }
}
