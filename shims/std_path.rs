// ASSUMED CONTRACTS for std::path (shim; bodies are never run)
pub mod path {
    use vstd::prelude::*;
    use crate::spec::*;
    use crate::shims::World;

    #[verifier::external_body]
    pub struct Path { p: ::std::path::PathBuf }
    #[verifier::external_body]
    pub struct PathBuf { p: ::std::path::PathBuf }
    impl View for Path { type V = PathV; uninterp spec fn view(&self) -> PathV; }
    impl View for PathBuf { type V = PathV; uninterp spec fn view(&self) -> PathV; }

    impl ::std::ops::Deref for PathBuf {
        type Target = Path;
        #[verifier::external_body]
        fn deref(&self) -> (r: &Path) ensures r@ == self@ { unimplemented!() }
    }
    impl Clone for PathBuf {
        #[verifier::external_body]
        fn clone(&self) -> (r: Self) ensures r@ == self@ { unimplemented!() }
    }

    /// what `push`/`join` accept (std: `P: AsRef<Path>`): the argument's text if it is
    /// a string, or its path if it already is one
    pub trait PathArg {
        spec fn is_text(&self) -> bool;
        spec fn text(&self) -> Seq<char>;
        spec fn pathv(&self) -> PathV;
    }
    impl<'a> PathArg for &'a str {
        open spec fn is_text(&self) -> bool { true }
        open spec fn text(&self) -> Seq<char> { self@ }
        uninterp spec fn pathv(&self) -> PathV;
    }
    impl PathArg for String {
        open spec fn is_text(&self) -> bool { true }
        open spec fn text(&self) -> Seq<char> { self@ }
        uninterp spec fn pathv(&self) -> PathV;
    }
    impl<'a> PathArg for &'a String {
        open spec fn is_text(&self) -> bool { true }
        open spec fn text(&self) -> Seq<char> { self@ }
        uninterp spec fn pathv(&self) -> PathV;
    }
    impl<'a> PathArg for &'a Path {
        open spec fn is_text(&self) -> bool { false }
        uninterp spec fn text(&self) -> Seq<char>;
        open spec fn pathv(&self) -> PathV { self@ }
    }
    impl<'a> PathArg for &'a PathBuf {
        open spec fn is_text(&self) -> bool { false }
        uninterp spec fn text(&self) -> Seq<char>;
        open spec fn pathv(&self) -> PathV { self@ }
    }
    impl PathArg for PathBuf {
        open spec fn is_text(&self) -> bool { false }
        uninterp spec fn text(&self) -> Seq<char>;
        open spec fn pathv(&self) -> PathV { self@ }
    }
    /// pushing a path onto the *empty* path yields that path; pushing a path onto a
    /// non-empty path is unspecified (absolute paths replace, relative ones append)
    pub uninterp spec fn weird_path_join(a: PathV, b: PathV) -> PathV;
    pub open spec fn push_spec<A: PathArg>(p: PathV, a: A) -> PathV {
        if a.is_text() { pjoin(p, a.text()) }
        else if p.comps.len() == 0 { a.pathv() }
        else { weird_path_join(p, a.pathv()) }
    }

    #[verifier::external_body]
    pub struct Display { d: u8 }

    impl Path {
        pub fn as_ref(&self) -> (r: &Path) ensures r@ == self@ { self }
        #[verifier::external_body]
        pub fn to_path_buf(&self) -> (r: PathBuf) ensures r@ == self@ { unimplemented!() }
        #[verifier::external_body]
        pub fn to_owned(&self) -> (r: PathBuf) ensures r@ == self@ { unimplemented!() }
        #[verifier::external_body]
        pub fn join<A: PathArg>(&self, a: A) -> (r: PathBuf) ensures r@ == push_spec(self@, a) { unimplemented!() }
        #[verifier::external_body]
        pub fn parent(&self) -> (r: Option<&Path>)
            ensures self@.comps.len() > 1 ==> r is Some,
                r is Some ==> r->Some_0@ == parent_of(self@) && self@.comps.len() > 0,
        { unimplemented!() }
        #[verifier::external_body]
        pub fn display(&self) -> (r: Display) { unimplemented!() }
        /// follows symbolic links (a dangling link does not "exist")
        #[verifier::external_body]
        pub fn exists(&self, Tracked(w): Tracked<&World>) -> (r: bool)
            ensures r ==> (w.fs.files.contains_key(resolve(w.fs, self@)) || w.fs.dirs.contains(resolve(w.fs, self@))),
                w.healthy ==> (r <==> (w.fs.files.contains_key(resolve(w.fs, self@)) || w.fs.dirs.contains(resolve(w.fs, self@)))),
        { unimplemented!() }
        /// the last component (as an OS string: its text is not modelled)
        #[verifier::external_body]
        pub fn file_name(&self) -> (r: Option<&crate::shims::std::ffi::OsStr>) { unimplemented!() }
        /// follows symbolic links: a regular file is there (whatever it holds)
        #[verifier::external_body]
        pub fn is_file(&self, Tracked(w): Tracked<&World>) -> (r: bool)
            ensures r ==> w.fs.files.contains_key(resolve(w.fs, self@)),
                w.healthy ==> (r <==> w.fs.files.contains_key(resolve(w.fs, self@))),
        { unimplemented!() }
        #[verifier::external_body]
        pub fn is_dir(&self, Tracked(w): Tracked<&World>) -> (r: bool)
            ensures r ==> w.fs.dirs.contains(resolve(w.fs, self@)),
                w.healthy ==> (r <==> w.fs.dirs.contains(resolve(w.fs, self@))),
        { unimplemented!() }
        #[verifier::external_body]
        pub fn is_symlink(&self, Tracked(w): Tracked<&World>) -> (r: bool)
            ensures r ==> w.fs.links.contains_key(self@),
        { unimplemented!() }
    }
    /// the path is absolute (does not depend on the working directory or on where a symlink
    /// holding it lives)
    pub uninterp spec fn is_abs(p: PathV) -> bool;
    impl Path {
        /// realpath(3): an absolute path naming the same file; fails if the file does not exist
        #[verifier::external_body]
        pub fn canonicalize(&self, Tracked(w): Tracked<&World>) -> (r: crate::shims::std::io::Result<PathBuf>)
            ensures
                r is Ok ==> is_abs(r->Ok_0@) && resolve(w.fs, r->Ok_0@) == resolve(w.fs, self@) && !w.fs.links.contains_key(r->Ok_0@),
                w.healthy && readable(w.fs, self@) ==> r is Ok,
        { unimplemented!() }
        /// stat(2) (follows symbolic links)
        #[verifier::external_body]
        pub fn metadata(&self, Tracked(w): Tracked<&World>) -> (r: crate::shims::std::io::Result<crate::shims::std::fs::Metadata>)
            ensures
                r is Ok && readable(w.fs, self@) ==> r->Ok_0.spec_len() == bytes_at(w.fs, self@).len(),
                w.healthy && readable(w.fs, self@) ==> r is Ok,
        { unimplemented!() }
    }
    impl PathBuf {
        #[verifier::external_body]
        pub fn new() -> (r: PathBuf) ensures r@.comps.len() == 0 { unimplemented!() }
        #[verifier::external_body]
        pub fn push<A: PathArg>(&mut self, a: A) ensures final(self)@ == push_spec(old(self)@, a) { unimplemented!() }
        #[verifier::external_body]
        pub fn as_path(&self) -> (r: &Path) ensures r@ == self@ { unimplemented!() }
    }
}
