use vstd::prelude::*;
verus! {
pub open spec fn somes<U>(res: Seq<Option<U>>) -> Seq<U> decreases res.len() {
    if res.len() == 0 { Seq::empty() }
    else if res.last() is Some { somes(res.drop_last()).push(res.last()->Some_0) }
    else { somes(res.drop_last()) }
}
pub open spec fn filter_map_rel<T, U, F: FnMut(T) -> Option<U>>(f: F, s: Seq<T>, out: Seq<U>) -> bool {
    exists|res: Seq<Option<U>>| #[trigger] res.len() == s.len()
        && (forall|i: int| 0 <= i < s.len() ==> call_ensures(f, (s[i],), #[trigger] res[i]))
        && out == somes(res)
}
pub open spec fn fm<T, U>(s: Seq<T>, g: spec_fn(T) -> Option<U>) -> Seq<U> decreases s.len() {
    if s.len() == 0 { Seq::empty() }
    else if g(s.last()) is Some { fm(s.drop_last(), g).push(g(s.last())->Some_0) }
    else { fm(s.drop_last(), g) }
}
proof fn lemma_somes_map<T, U>(s: Seq<T>, g: spec_fn(T) -> Option<U>, res: Seq<Option<U>>)
    requires res.len() == s.len(), forall|i: int| 0 <= i < s.len() ==> res[i] == g(s[i])
    ensures somes(res) == fm(s, g)
    decreases s.len()
{
    if s.len() > 0 {
        lemma_somes_map(s.drop_last(), g, res.drop_last());
    }
}
pub proof fn lemma_filter_map_det<T, U, F: FnMut(T) -> Option<U>>(f: F, s: Seq<T>, out: Seq<U>, g: spec_fn(T) -> Option<U>)
    requires filter_map_rel(f, s, out),
        forall|x: T, r: Option<U>| call_ensures(f, (x,), r) ==> r == g(x),
    ensures out == fm(s, g)
{
    let res = choose|res: Seq<Option<U>>| #[trigger] res.len() == s.len()
        && (forall|i: int| 0 <= i < s.len() ==> call_ensures(f, (s[i],), #[trigger] res[i]))
        && out == somes(res);
    assert forall|i: int| 0 <= i < s.len() implies res[i] == g(s[i]) by {
        assert(call_ensures(f, (s[i],), res[i]));
    }
    lemma_somes_map(s, g, res);
}

// usage: a caller with an inline closure
#[verifier::external_body]
#[verifier::accept_recursive_types(T)]
pub struct Iter<T> { v: Vec<T> }
impl<T> View for Iter<T> { type V = Seq<T>; uninterp spec fn view(&self) -> Seq<T>; }
impl<T> Iter<T> {
    #[verifier::external_body]
    pub fn filter_map<U, F: FnMut(T) -> Option<U>>(self, f: F) -> (r: Iter<U>)
        requires forall|t: T| call_requires(f, (t,)),
        ensures forall|g: spec_fn(T) -> Option<U>| (forall|x: T, o: Option<U>| #[trigger] call_ensures(f, (x,), o) ==> o == g(x)) ==> r@ == #[trigger] fm(self@, g),
    { unimplemented!() }
}
pub open spec fn keep_even(x: u64) -> Option<u64> { if x % 2 == 0 { Some(x) } else { None } }
fn user(it: Iter<u64>) -> (r: Iter<u64>)
    ensures r@ == fm(it@, |x: u64| keep_even(x))
{
    it.filter_map(|x: u64| -> (o: Option<u64>) ensures o == keep_even(x) { if x % 2 == 0 { Some(x) } else { None } })
}
}
fn main() {}
