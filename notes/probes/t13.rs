use vstd::prelude::*;
verus! {
#[verifier::external_body]
#[verifier::accept_recursive_types(T)]
pub struct Iter<T> { v: Vec<T> }
impl<T> View for Iter<T> { type V = Seq<T>; uninterp spec fn view(&self) -> Seq<T>; }
#[verifier::external_body] pub struct IoError { e: u8 }
pub enum ErrorKind { NotFound, Other }
impl IoError {
    #[verifier::external_body]
    pub fn kind(&self) -> ErrorKind { unimplemented!() }
}
#[verifier::external_body] pub struct Path { e: u8 }
pub struct SerializableMetadata { pub key: String, pub integrity: Option<String> }

pub open spec fn map_while_rel<T, U, F: FnMut(T) -> Option<U>>(f: F, s: Seq<T>, out: Seq<U>) -> bool {
    &&& out.len() <= s.len()
    &&& forall|i: int| 0 <= i < out.len() ==> call_ensures(f, (s[i],), Some(#[trigger] out[i]))
    &&& (out.len() < s.len() ==> call_ensures(f, (s[out.len() as int],), None::<U>))
}
pub open spec fn filter_map_rel<T, U, F: FnMut(T) -> Option<U>>(f: F, s: Seq<T>, out: Seq<U>) -> bool {
    exists|res: Seq<Option<U>>| #[trigger] res.len() == s.len()
        && (forall|i: int| 0 <= i < s.len() ==> call_ensures(f, (s[i],), #[trigger] res[i]))
        && out == somes(res)
}
pub open spec fn somes<U>(res: Seq<Option<U>>) -> Seq<U> decreases res.len() {
    if res.len() == 0 { Seq::empty() }
    else if res.last() is Some { somes(res.drop_last()).push(res.last()->Some_0) }
    else { somes(res.drop_last()) }
}
pub trait FromIter<T>: Sized { spec fn from_seq(&self, s: Seq<T>) -> bool; }
impl<T> FromIter<T> for Vec<T> { open spec fn from_seq(&self, s: Seq<T>) -> bool { self@ == s } }
impl<T> Iter<T> {
    #[verifier::external_body]
    pub fn map_while<U, F: FnMut(T) -> Option<U>>(self, f: F) -> (r: Iter<U>)
        requires forall|t: T| call_requires(f, (t,)),
        ensures map_while_rel(f, self@, r@),
    { unimplemented!() }
    #[verifier::external_body]
    pub fn filter_map<U, F: FnMut(T) -> Option<U>>(self, f: F) -> (r: Iter<U>)
        requires forall|t: T| call_requires(f, (t,)),
        ensures filter_map_rel(f, self@, r@),
    { unimplemented!() }
    #[verifier::external_body]
    pub fn collect<C: FromIter<T>>(self) -> (r: C)
        ensures r.from_seq(self@)
    { unimplemented!() }
}
pub mod fs {
    use super::*;
    #[verifier::external_body] pub struct File { e: u8 }
    impl File {
        #[verifier::external_body]
        pub fn open(p: &Path) -> std::result::Result<File, IoError> { unimplemented!() }
    }
}
#[verifier::external_body] pub struct BufReader { e: u8 }
impl BufReader {
    #[verifier::external_body]
    pub fn new(f: fs::File) -> BufReader { unimplemented!() }
    #[verifier::external_body]
    pub fn lines(self) -> Iter<std::result::Result<String, IoError>> { unimplemented!() }
}
#[verifier::external_body]
pub fn split_tab(s: &String) -> Vec<&str> { unimplemented!() }
#[verifier::external_body]
fn hash_entry(s: &str) -> String { String::new() }
pub assume_specification<'a>[<String as PartialEq<&'a str>>::eq](a: &String, b: &&str) -> (r: bool) ensures r == (a@ == b@);
pub mod serde_json {
    use super::*;
    #[verifier::external_body]
    pub fn from_str(s: &str) -> std::result::Result<SerializableMetadata, ()> { unimplemented!() }
}
pub assume_specification<T, E, F, O> [std::result::Result::<T, E>::or_else] (o: std::result::Result<T, E>, f: O) -> (r: std::result::Result<T, F>)
    where O: std::ops::FnOnce(E) -> std::result::Result<T, F>,
    requires o is Err ==> call_requires(f, (o->Err_0,)),
    ensures o is Ok ==> r is Ok && r->Ok_0 == o->Ok_0, o is Err ==> call_ensures(f, (o->Err_0,), r);

fn bucket_entries(bucket: &Path) -> std::result::Result<Vec<SerializableMetadata>, IoError> {
    fs::File::open(bucket)
        .map(|file| {
            BufReader::new(file)
                .lines()
                .map_while(std::result::Result::ok)
                .filter_map(|entry: String| {
                    let __v = split_tab(&entry);
                    let entry_str = if __v.len() == 2 { 
                        let hash = __v[0]; let entry_str = __v[1];
                        if hash_entry(entry_str) == hash { entry_str } else { return None }
                    } else { return None };
                    serde_json::from_str(entry_str).ok()
                })
                .collect()
        })
        .or_else(|err: IoError| {
            if matches!(err.kind(), ErrorKind::NotFound) {
                Ok(Vec::new())
            } else {
                Err(err)?
            }
        })
}
}
fn main() {}
