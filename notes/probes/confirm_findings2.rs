use std::io::Write;
fn set_fsize(n: u64) {
    unsafe {
        let mut r = libc::rlimit { rlim_cur: 0, rlim_max: 0 };
        libc::getrlimit(libc::RLIMIT_FSIZE, &mut r);
        r.rlim_cur = n;
        libc::setrlimit(libc::RLIMIT_FSIZE, &r);
    }
}
fn walk(p: &std::path::Path) -> Vec<std::path::PathBuf> {
    let mut v = vec![];
    if let Ok(rd) = std::fs::read_dir(p) { for e in rd.flatten() { let p = e.path(); if p.is_dir() && !p.is_symlink() { v.extend(walk(&p)); } else { v.push(p); } } }
    v
}
fn main() {
    unsafe { libc::signal(libc::SIGXFSZ, libc::SIG_IGN); }
    // F7: short write, fault goes away, caller follows the io::Write contract and writes the rest
    {
        let t = tempfile::tempdir().unwrap(); let c = t.path();
        let mut w = cacache::WriteOpts::new().open_hash_sync(c).unwrap();
        let data = b"helloworld";
        set_fsize(5);
        let n = w.write(data);
        println!("F7 first write -> {:?}", n);
        set_fsize(libc::RLIM_INFINITY);
        let n = n.unwrap();
        w.write_all(&data[n..]).unwrap();
        let sri = w.commit().unwrap();
        let f = walk(&c.join("content-v2")).pop().unwrap();
        println!("F7 commit -> {}  (true digest of data: {})", sri, ssri::Integrity::from(data));
        println!("F7 file {:?} holds {:?}", f.strip_prefix(c).unwrap(), String::from_utf8_lossy(&std::fs::read(&f).unwrap()));
        println!("F7 read_hash_sync(returned) -> {:?}", cacache::read_hash_sync(c, &sri).map_err(|e| e.to_string().lines().next().unwrap().to_string()));
    }
    // F8: link_to with a relative target
    {
        let t = tempfile::tempdir().unwrap();
        std::env::set_current_dir(t.path()).unwrap();
        std::fs::write("target.txt", b"linked data").unwrap();
        let r = cacache::link_to_sync("cache", "k", "target.txt");
        println!("F8 link_to_sync(relative) -> {:?}", r.as_ref().map(|s| s.to_string()).map_err(|e| e.to_string()));
        println!("F8 read_sync -> {:?}", cacache::read_sync("cache", "k").map(|d| String::from_utf8_lossy(&d).to_string()).map_err(|e| e.to_string().lines().next().unwrap().to_string()));
        for f in walk(std::path::Path::new("cache/content-v2")) { println!("F8 {:?} -> {:?}", f, std::fs::read_link(&f)); }
        let abs = t.path().join("target.txt");
        let r = cacache::link_to_sync("cache2", "k", &abs);
        println!("F8 absolute: link -> {:?}, read -> {:?}", r.is_ok(), cacache::read_sync("cache2", "k").map(|d| String::from_utf8_lossy(&d).to_string()).map_err(|e| e.to_string()));
    }
}
