use vstd::prelude::*;
verus! {
pub struct World { pub ghost files: Map<int, Seq<u8>> }
#[verifier::external_body] pub struct IoError { e: u8 }

// ---- P1: shim trait Write with trait-level contract; write_all trusted in terms of it
pub trait Write {
    spec fn sink(&self, w: World) -> Seq<u8>;
    spec fn wf(&self, w: World) -> bool;
    fn write(&mut self, buf: &[u8], Tracked(w): Tracked<&mut World>) -> (r: std::result::Result<usize, IoError>)
        requires old(self).wf(*old(w)),
        ensures final(self).wf(*final(w)),
            r is Ok ==> r->Ok_0 <= buf@.len() && final(self).sink(*final(w)) == old(self).sink(*old(w)) + buf@.subrange(0, r->Ok_0 as int),
            r is Err ==> final(self).sink(*final(w)) == old(self).sink(*old(w));
    #[verifier::external_body]
    fn write_all(&mut self, buf: &[u8], Tracked(w): Tracked<&mut World>) -> (r: std::result::Result<(), IoError>)
        requires old(self).wf(*old(w)),
        ensures final(self).wf(*final(w)),
            r is Ok ==> final(self).sink(*final(w)) == old(self).sink(*old(w)) + buf@,
            r is Err ==> exists|k: int| 0 <= k <= buf@.len() && final(self).sink(*final(w)) == old(self).sink(*old(w)) + buf@.subrange(0, k),
    { unimplemented!() }
}

#[verifier::external_body] pub struct NamedTempFile { f: u8 }
impl View for NamedTempFile { type V = int; uninterp spec fn view(&self) -> int; }
impl NamedTempFile {
    #[verifier::external_body]
    pub fn write(&mut self, buf: &[u8], Tracked(w): Tracked<&mut World>) -> (r: std::result::Result<usize, IoError>)
        requires old(w).files.contains_key(old(self)@)
        ensures final(self)@ == old(self)@,
            r is Ok ==> r->Ok_0 <= buf@.len() && final(w).files == old(w).files.insert(old(self)@, old(w).files[old(self)@] + buf@.subrange(0, r->Ok_0 as int)),
            r is Err ==> final(w).files == old(w).files,
    { unimplemented!() }
}
#[verifier::external_body] pub struct IntegrityOpts { f: u8 }
impl View for IntegrityOpts { type V = Seq<u8>; uninterp spec fn view(&self) -> Seq<u8>; }
impl IntegrityOpts {
    #[verifier::external_body]
    pub fn input(&mut self, data: &[u8]) ensures final(self)@ == old(self)@ + data@ { unimplemented!() }
}
#[verifier::external_body]
pub fn slice_to<'a>(buf: &'a [u8], n: usize) -> (r: &'a [u8]) requires n <= buf@.len() ensures r@ == buf@.subrange(0, n as int) { &buf[..n] }
pub struct Writer { pub builder: IntegrityOpts, pub tmpfile: NamedTempFile }

impl Write for Writer {
    open spec fn sink(&self, w: World) -> Seq<u8> { w.files[self.tmpfile@] }
    open spec fn wf(&self, w: World) -> bool { w.files.contains_key(self.tmpfile@) && self.builder@ == w.files[self.tmpfile@] }
    fn write(&mut self, buf: &[u8], Tracked(w): Tracked<&mut World>) -> (r: std::result::Result<usize, IoError>)
    {
        let n = self.tmpfile.write(buf, Tracked(w))?;
        self.builder.input(slice_to(buf, n));
        Ok(n)
    }
}
}
fn main() {}
