use vstd::prelude::*;
verus! {
pub struct World { pub ghost trace: Seq<int> }

#[verifier::external_body] pub struct PathBuf { p: u8 }
#[verifier::external_body] pub struct Path { p: u8 }
#[verifier::external_body] pub struct IoError { e: u8 }
#[verifier::external_body] pub struct Integrity { i: u8 }
pub struct SriV { pub algo: int, pub digest: Seq<u8> }
impl View for Integrity { type V = SriV; uninterp spec fn view(&self) -> SriV; }
impl Clone for Integrity {
    #[verifier::external_body]
    fn clone(&self) -> (r: Self) ensures r@ == self@ { unimplemented!() }
}
pub uninterp spec fn sri_matches_sri(a: SriV, b: SriV) -> bool;
#[derive(Clone)]
pub enum Algorithm { Sha256 }
impl Integrity {
    #[verifier::external_body]
    pub fn matches(&self, other: &Integrity) -> (r: Option<Algorithm>) ensures r is Some <==> sri_matches_sri(self@, other@) { unimplemented!() }
}
pub mod ssri { 
  use super::*;
  pub enum Error { IntegrityCheckError(Integrity, Integrity) }
}
pub enum Error { IoError(IoError), SizeMismatch(usize, usize), IntegrityError(ssri::Error) }
pub type Result<T> = std::result::Result<T, Error>;
impl std::convert::From<ssri::Error> for Error {
    fn from(e: ssri::Error) -> (r: Error) { Error::IntegrityError(e) }
}
impl vstd::std_specs::convert::FromSpecImpl<ssri::Error> for Error {
    open spec fn obeys_from_spec() -> bool { true }
    open spec fn from_spec(e: ssri::Error) -> Error { Error::IntegrityError(e) }
}

#[derive(Clone, Default)]
pub struct WriteOpts {
    pub algorithm: Option<Algorithm>,
    pub sri: Option<Integrity>,
    pub size: Option<usize>,
    pub time: Option<u128>,
}
pub mod write {
  use super::*;
  #[verifier::external_body] pub struct Writer { w: u8 }
  impl Writer {
    #[verifier::external_body]
    pub fn close(self, Tracked(w): Tracked<&mut World>) -> (r: Result<Integrity>) 
       ensures final(w).trace == old(w).trace.push(1)
    { unimplemented!() }
  }
}
pub mod index {
  use super::*;
  #[verifier::external_body]
  pub fn insert(cache: &PathBuf, key: &String, opts: WriteOpts, Tracked(w): Tracked<&mut World>) -> (r: Result<Integrity>) 
       ensures final(w).trace == old(w).trace.push(2)
  { unimplemented!() }
}

pub struct SyncWriter {
    pub cache: PathBuf,
    pub key: Option<String>,
    pub written: usize,
    pub writer: write::Writer,
    pub opts: WriteOpts,
}

impl SyncWriter {
    pub fn commit(self, Tracked(w): Tracked<&mut World>) -> (r: Result<Integrity>) 
       ensures r is Ok ==> (self.opts.size is Some ==> self.opts.size->Some_0 == self.written),
    {
        let mut this = self;
        let cache = this.cache;
        let writer_sri = this.writer.close(Tracked(w))?;
        if let Some(sri) = &this.opts.sri {
            if sri.matches(&writer_sri).is_none() {
                return Err(ssri::Error::IntegrityCheckError(sri.clone(), writer_sri).into());
            }
        } else {
            this.opts.sri = Some(writer_sri.clone());
        }
        if let Some(size) = this.opts.size {
            if size != this.written {
                return Err(Error::SizeMismatch(size, this.written));
            }
        }
        if let Some(key) = this.key {
            index::insert(&cache, &key, this.opts, Tracked(w))
        } else {
            Ok(writer_sri)
        }
    }
}
}
fn main() {}
