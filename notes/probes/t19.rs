use vstd::prelude::*;
verus! {
pub struct PathV { pub comps: Seq<Seq<char>> }
#[verifier::external_body] pub struct Path { p: u8 }
#[verifier::external_body] pub struct PathBuf { p: u8 }
impl View for Path { type V = PathV; uninterp spec fn view(&self) -> PathV; }
impl View for PathBuf { type V = PathV; uninterp spec fn view(&self) -> PathV; }
impl std::ops::Deref for PathBuf {
    type Target = Path;
    #[verifier::external_body]
    fn deref(&self) -> (r: &Path) ensures r@ == self@ { unimplemented!() }
}
#[verifier::external_trait_specification]
pub trait ExAsRef<T: ?Sized> { type ExternalTraitSpecificationFor: AsRef<T>; fn as_ref(&self) -> &T; }
impl AsRef<Path> for Path { fn as_ref(&self) -> (r: &Path) ensures r@ == self@ { self } }
impl AsRef<Path> for PathBuf { #[verifier::external_body] fn as_ref(&self) -> (r: &Path) ensures r@ == self@ { unimplemented!() } }
impl AsRef<Path> for str { #[verifier::external_body] fn as_ref(&self) -> (r: &Path) { unimplemented!() } }
impl Path {
    #[verifier::external_body]
    pub fn exists(&self) -> bool { unimplemented!() }
    #[verifier::external_body]
    pub fn to_path_buf(&self) -> (r: PathBuf) ensures r@ == self@ { unimplemented!() }
}
fn takes_path(p: &Path) -> (r: PathBuf) ensures r@ == p@ { p.to_path_buf() }

fn inner(cache: &Path) -> (r: bool) { cache.exists() }
pub fn generic<P: AsRef<Path>>(cache: P) -> bool {
    inner(cache.as_ref())
}
fn t(pb: PathBuf) -> (r: PathBuf) ensures r@ == pb@ {
    let e = pb.exists();          // method via Deref
    takes_path(&pb)               // deref coercion &PathBuf -> &Path
}
}
fn main() {}
