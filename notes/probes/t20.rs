use vstd::prelude::*;
verus! {
pub assume_specification[<str as AsRef<str>>::as_ref](s: &str) -> (r: &str) ensures r@ == s@;
pub assume_specification<T>[<[T] as AsRef<[T]>>::as_ref](s: &[T]) -> (r: &[T]) ensures r@ == s@;
#[verifier::external_body] pub struct Path { p: u8 }
impl Path { pub fn as_ref(&self) -> (r: &Path) ensures r == self { self } }
fn inner(cache: &Path, key: &str, data: &[u8]) -> (r: usize) ensures r == data@.len() { data.len() }
pub fn write_sync(cache: &Path, key: &str, data: &[u8]) -> (r: usize) ensures r == data@.len()
{
    inner(cache.as_ref(), key.as_ref(), data.as_ref())
}
}
fn main() {}
