use std::io::Write;
use std::path::{Path, PathBuf};
use sha2::{Digest, Sha256};

fn bucket_of(cache: &Path) -> PathBuf {
    // find the single bucket file
    for e in walk(&cache.join("index-v5")) { return e; }
    panic!("no bucket");
}
fn walk(p: &Path) -> Vec<PathBuf> {
    let mut v = vec![];
    if let Ok(rd) = std::fs::read_dir(p) { for e in rd.flatten() { let p = e.path(); if p.is_dir() { v.extend(walk(&p)); } else { v.push(p); } } }
    v
}
fn catch<F: FnOnce() -> R + std::panic::UnwindSafe, R>(name: &str, f: F) -> Option<R> {
    match std::panic::catch_unwind(f) { Ok(r) => Some(r), Err(_) => { println!("  >> PANIC in {name}"); None } }
}

fn main() {
    std::panic::set_hook(Box::new(|_| {}));
    // F1: sync find after a non-UTF-8 line
    {
        let t = tempfile::tempdir().unwrap(); let c = t.path();
        cacache::write_sync(c, "k", b"one").unwrap();
        let b = bucket_of(c);
        let mut f = std::fs::OpenOptions::new().append(true).open(&b).unwrap();
        f.write_all(b"\n\xff\xfe garbage").unwrap();
        let s2 = cacache::write_sync(c, "k", b"two").unwrap();
        let m_sync = cacache::metadata_sync(c, "k").unwrap().map(|m| m.integrity.to_string());
        let m_async = async_std::task::block_on(cacache::metadata(c, "k")).unwrap().map(|m| m.integrity.to_string());
        println!("F1 new={} sync={:?} async={:?}", s2, m_sync, m_async);
    }
    // F2a: declared size, chunked write (sync)
    {
        let t = tempfile::tempdir().unwrap(); let c = t.path().to_path_buf();
        let r = catch("F2a chunked declared-size write", move || {
            let mut w = cacache::WriteOpts::new().size(4).open_sync(&c, "k").unwrap();
            w.write_all(b"ab").unwrap(); w.write_all(b"cd").unwrap(); w.commit()
        });
        println!("F2a result={:?}", r.map(|r| r.map(|s| s.to_string()).map_err(|e| e.to_string())));
    }
    // F2b: declared size 10, nothing written -> what is in the content area?
    {
        let t = tempfile::tempdir().unwrap(); let c = t.path();
        let w = cacache::WriteOpts::new().size(10).open_hash_sync(c).unwrap();
        let r = w.commit();
        let files = walk(&c.join("content-v2"));
        println!("F2b commit={:?} content files={:?}", r.map(|s| s.to_string()).map_err(|e| e.to_string()), files.iter().map(|p| (p.strip_prefix(c).unwrap().to_owned(), std::fs::read(p).unwrap())).collect::<Vec<_>>());
        let empty = ssri::Integrity::from(b"");
        println!("F2b exists(empty)={} read_hash(empty)={:?}", cacache::exists_sync(c, &empty), cacache::read_hash_sync(c, &empty).map_err(|e| e.to_string()));
    }
    // F3: sync hard_link of damaged content
    {
        let t = tempfile::tempdir().unwrap(); let c = t.path();
        let sri = cacache::write_sync(c, "k", b"hello").unwrap();
        let cf = walk(&c.join("content-v2")).pop().unwrap();
        std::fs::write(&cf, b"HELLO").unwrap();
        let d1 = c.join("out1"); let d2 = c.join("out2");
        let r1 = cacache::hard_link_hash_sync(c, &sri, &d1);
        let r2 = async_std::task::block_on(cacache::hard_link(c, "k", &d2));
        println!("F3 sync={:?} dest_exists={} | async={:?} dest_exists={}", r1.map_err(|e| e.to_string()), d1.exists(), r2.map_err(|e| e.to_string()), d2.exists());
    }
    // F4: default size
    {
        let t = tempfile::tempdir().unwrap(); let c = t.path();
        cacache::write_sync(c, "s", b"hello").unwrap();
        async_std::task::block_on(cacache::write(c, "a", b"hello")).unwrap();
        println!("F4 size sync={} async={}", cacache::metadata_sync(c, "s").unwrap().unwrap().size, cacache::metadata_sync(c, "a").unwrap().unwrap().size);
    }
    // F5: checksummed record with empty / unknown-algo integrity
    for integ in ["", "sha256-@@@", "md5-abcd"] {
        let t = tempfile::tempdir().unwrap(); let c = t.path().to_path_buf();
        cacache::write_sync(&c, "k", b"one").unwrap();
        let b = bucket_of(&c);
        let json = format!("{{\"key\":\"k\",\"integrity\":\"{}\",\"time\":1,\"size\":0,\"metadata\":null,\"raw_metadata\":null}}", integ);
        let mut h = Sha256::new(); h.update(&json); let hx = hex::encode(h.finalize());
        let mut f = std::fs::OpenOptions::new().append(true).open(&b).unwrap();
        f.write_all(format!("\n{}\t{}", hx, json).as_bytes()).unwrap();
        let c1 = c.clone(); let c2 = c.clone(); let c3 = c.clone();
        let m = catch("metadata_sync", move || cacache::metadata_sync(&c1, "k").map(|m| m.map(|m| m.integrity.to_string())).map_err(|e| e.to_string()));
        let r = catch("read_sync", move || cacache::read_sync(&c2, "k").map_err(|e| e.to_string()));
        let l = catch("list_sync", move || cacache::list_sync(&c3).map(|x| x.map(|m| m.key).map_err(|e| e.to_string())).collect::<Vec<_>>());
        println!("F5 integrity={:?}: metadata={:?} read={:?} list={:?}", integ, m, r, l);
    }
    // F6: directory at a bucket path, async find (run in a thread with timeout)
    {
        let t = tempfile::tempdir().unwrap(); let c = t.path().to_path_buf();
        cacache::write_sync(&c, "k", b"one").unwrap();
        let b = bucket_of(&c);
        std::fs::remove_file(&b).unwrap(); std::fs::create_dir(&b).unwrap();
        let r_sync = cacache::metadata_sync(&c, "k").map(|m| m.is_some()).map_err(|e| e.to_string());
        println!("F6 sync={:?}", r_sync);
        let (tx, rx) = std::sync::mpsc::channel();
        let c2 = c.clone();
        std::thread::spawn(move || { let r = async_std::task::block_on(cacache::metadata(&c2, "k")).map(|m| m.is_some()).map_err(|e| e.to_string()); let _ = tx.send(r); });
        match rx.recv_timeout(std::time::Duration::from_secs(5)) { Ok(r) => println!("F6 async={:?}", r), Err(_) => println!("F6 async=HANG (>5s)") }
    }
    std::process::exit(0);
}
