use vstd::prelude::*;
verus! {
#[verifier::external_body]
#[verifier::accept_recursive_types(T)]
pub struct Iter<T> { v: Vec<T> }
impl<T> View for Iter<T> { type V = Seq<T>; uninterp spec fn view(&self) -> Seq<T>; }

pub open spec fn fold_rel<T, B, F: FnMut(B, T) -> B>(f: F, s: Seq<T>, init: B, out: B) -> bool
    decreases s.len()
{
    if s.len() == 0 { out == init }
    else { exists|mid: B| #[trigger] fold_rel(f, s.drop_last(), init, mid) && call_ensures(f, (mid, s.last()), out) }
}
impl<T> Iter<T> {
    #[verifier::external_body]
    pub fn fold<B, F: FnMut(B, T) -> B>(self, init: B, f: F) -> (r: B)
        requires forall|b: B, t: T| call_requires(f, (b, t)),
        ensures fold_rel(f, self@, init, r),
    { unimplemented!() }
}

pub struct E { pub key: String, pub integ: Option<u64> }

pub open spec fn lookup(s: Seq<E>, key: Seq<char>) -> Option<u64>
    decreases s.len()
{
    if s.len() == 0 { None }
    else if s.last().key@ == key { s.last().integ }
    else { lookup(s.drop_last(), key) }
}

proof fn lemma_fold<F: FnMut(Option<u64>, E) -> Option<u64>>(f: F, s: Seq<E>, key: Seq<char>, out: Option<u64>)
    requires
        fold_rel(f, s, None, out),
        forall|a: Option<u64>, e: E, r: Option<u64>| call_ensures(f, (a, e), r) ==> r == (if e.key@ == key { e.integ } else { a }),
    ensures out == lookup(s, key)
    decreases s.len()
{
    if s.len() == 0 {
    } else {
        let mid = choose|mid: Option<u64>| #[trigger] fold_rel(f, s.drop_last(), None, mid) && call_ensures(f, (mid, s.last()), out);
        lemma_fold(f, s.drop_last(), key, mid);
    }
}

fn find2(it: Iter<E>, key: &str) -> (r: Option<u64>)
    ensures r == lookup(it@, key@)
{
    let ghost s = it@;
    let f = |acc: Option<u64>, entry: E| -> (r: Option<u64>)
        ensures r == (if entry.key@ == key@ { entry.integ } else { acc })
    {
            if entry.key == key {
                if let Some(integrity) = entry.integ {
                    Some(integrity)
                } else {
                    None
                }
            } else {
                acc
            }
    };
    let r = it.fold(None, f);
    proof { lemma_fold(f, s, key@, r); }
    r
}
}
fn main() {}
