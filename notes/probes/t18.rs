use vstd::prelude::*;
verus! {
pub open spec fn NL() -> u8 { 10u8 }

// segments between newlines, defined by recursion from the end
pub open spec fn segs(b: Seq<u8>) -> Seq<Seq<u8>>
    decreases b.len()
{
    if b.len() == 0 { seq![Seq::<u8>::empty()] }
    else {
        let p = segs(b.drop_last());
        if b.last() == NL() { p.push(Seq::<u8>::empty()) }
        else { p.update(p.len() - 1, p.last().push(b.last())) }
    }
}

pub open spec fn nl_free(b: Seq<u8>) -> bool { forall|i: int| 0 <= i < b.len() ==> b[i] != NL() }

pub proof fn lemma_segs_nonempty(b: Seq<u8>)
    ensures segs(b).len() >= 1
    decreases b.len()
{
    if b.len() > 0 { lemma_segs_nonempty(b.drop_last()); }
}

// appending newline-free bytes extends the last segment
pub proof fn lemma_segs_append_nlfree(a: Seq<u8>, x: Seq<u8>)
    requires nl_free(x)
    ensures segs(a + x) == segs(a).update(segs(a).len() - 1, segs(a).last() + x), segs(a).len() >= 1
    decreases x.len()
{
    lemma_segs_nonempty(a);
    if x.len() == 0 {
        assert(a + x =~= a);
        assert(segs(a).last() + x =~= segs(a).last());
        assert(segs(a).update(segs(a).len() - 1, segs(a).last()) =~= segs(a));
    } else {
        let x0 = x.drop_last();
        lemma_segs_append_nlfree(a, x0);
        assert((a + x).drop_last() =~= a + x0);
        assert((a + x).last() == x.last());
        let p = segs(a + x0);
        assert(p.last().push(x.last()) =~= segs(a).last() + x) by {
            assert(x0.push(x.last()) =~= x);
        }
        assert(segs(a + x) =~= segs(a).update(segs(a).len() - 1, segs(a).last() + x));
    }
}

// the append lemma used by insert: "\n" + r starts a fresh segment
pub proof fn lemma_segs_append_record(a: Seq<u8>, r: Seq<u8>)
    requires nl_free(r)
    ensures segs(a + seq![NL()] + r) == segs(a).push(r)
{
    let a1 = a + seq![NL()];
    assert(a1.drop_last() =~= a);
    assert(a1.last() == NL());
    assert(segs(a1) == segs(a).push(Seq::<u8>::empty()));
    lemma_segs_append_nlfree(a1, r);
    assert(Seq::<u8>::empty() + r =~= r);
    assert(segs(a1 + r) =~= segs(a).push(r));
}

// general concatenation across a newline
pub proof fn lemma_segs_concat(a: Seq<u8>, b: Seq<u8>)
    ensures segs(a + seq![NL()] + b) == segs(a) + segs(b)
    decreases b.len()
{
    let a1 = a + seq![NL()];
    if b.len() == 0 {
        assert(a1 + b =~= a1);
        assert(a1.drop_last() =~= a);
        assert(segs(a1) == segs(a).push(Seq::<u8>::empty()));
        assert(segs(b) =~= seq![Seq::<u8>::empty()]);
        assert(segs(a).push(Seq::<u8>::empty()) =~= segs(a) + segs(b));
    } else {
        let b0 = b.drop_last();
        lemma_segs_concat(a, b0);
        lemma_segs_nonempty(b0);
        assert((a1 + b).drop_last() =~= a1 + b0);
        assert((a1 + b).last() == b.last());
        if b.last() == NL() {
            assert(segs(a1 + b) =~= segs(a) + segs(b));
        } else {
            assert(segs(a1 + b) =~= segs(a) + segs(b));
        }
    }
}
}
fn main() {}
