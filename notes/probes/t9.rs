use vstd::prelude::*;
verus! {
#[verifier::external_body]
fn hash_entry(s: &str) -> String { String::new() }
pub assume_specification<'a>[<String as PartialEq<&'a str>>::eq](a: &String, b: &&str) -> (r: bool) ensures r == (a@ == b@);

fn t(v: Vec<&str>) -> (r: Option<&str>)
{
    let entry_str = match v[..] {
        [hash, entry_str] if hash_entry(entry_str) == hash => entry_str,
        _ => return None,
    };
    Some(entry_str)
}
}
fn main() {}
