use vstd::prelude::*;
verus! {
pub struct World { pub ghost files: Map<int, Seq<u8>> }
#[verifier::external_body] pub struct IoError { e: u8 }
pub enum Error { Io(IoError) }
pub type Result<T> = std::result::Result<T, Error>;

#[verifier::external_body]
#[verifier::accept_recursive_types(T)]
pub struct Iter<T> { v: Vec<T> }
impl<T> View for Iter<T> { type V = Seq<T>; uninterp spec fn view(&self) -> Seq<T>; }
impl<T> Iter<T> {
    #[verifier::external_body]
    pub fn map<U, F: FnMut(T) -> U>(self, f: F) -> (r: Iter<U>)
        requires forall|t: T| call_requires(f, (t,)),
        ensures r@.len() == self@.len(), forall|i: int| 0 <= i < self@.len() ==> call_ensures(f, (self@[i],), #[trigger] r@[i]),
    { unimplemented!() }
    #[verifier::external_body]
    pub fn filter_map<U, F: FnMut(T) -> Option<U>>(self, f: F) -> (r: Iter<U>)
        requires forall|t: T| call_requires(f, (t,)),
    { unimplemented!() }
    #[verifier::external_body]
    pub fn rev(self) -> (r: Iter<T>) ensures r@ == self@.reverse() { unimplemented!() }
    #[verifier::external_body]
    pub fn collect<C: FromIter<T>>(self) -> (r: C) ensures r.from_seq(self@) { unimplemented!() }
    #[verifier::external_body]
    pub fn flat_map<U, I: IntoIter<U>, F: FnMut(T) -> I>(self, f: F) -> (r: Iter<U>)
        requires forall|t: T| call_requires(f, (t,)),
    { unimplemented!() }
}
pub trait IntoIter<T>: Sized { fn into_iter_(self) -> Iter<T>; }
pub trait FromIter<T>: Sized { spec fn from_seq(&self, s: Seq<T>) -> bool; }
impl<T> FromIter<T> for Vec<T> { open spec fn from_seq(&self, s: Seq<T>) -> bool { self@ == s } }
impl<T> IntoIter<T> for Vec<T> { #[verifier::external_body] fn into_iter_(self) -> (r: Iter<T>) ensures r@ == self@ { unimplemented!() } }
impl<T> IntoIter<T> for Iter<T> { fn into_iter_(self) -> (r: Iter<T>) ensures r@ == self@ { self } }

#[verifier::external_body]
#[verifier::reject_recursive_types(T)]
pub struct HashSet<T> { v: Vec<T> }
impl<T> View for HashSet<T> { type V = Seq<T>; uninterp spec fn view(&self) -> Seq<T>; }   // view = some enumeration order
impl<T> FromIter<T> for HashSet<T> { open spec fn from_seq(&self, s: Seq<T>) -> bool { true } }
impl<T> IntoIter<T> for HashSet<T> { #[verifier::external_body] fn into_iter_(self) -> (r: Iter<T>) ensures r@ == self@ { unimplemented!() } }

pub enum Either<L, R> { Left(L), Right(R) }
pub use Either::{Left, Right};
impl<T> IntoIter<T> for Either<Iter<T>, Iter<T>> { #[verifier::external_body] fn into_iter_(self) -> (r: Iter<T>) { unimplemented!() } }
#[verifier::external_body]
pub fn once<T>(t: T) -> (r: Iter<T>) ensures r@ == seq![t] { unimplemented!() }

pub struct SM { pub key: String, pub integrity: Option<String> }
pub struct Metadata { pub key: String, pub integrity: u64 }
#[verifier::external_body] pub struct DirEntry { e: u8 }
impl DirEntry {
    #[verifier::external_body] pub fn is_dir(&self) -> bool { unimplemented!() }
    #[verifier::external_body] pub fn path(&self) -> u64 { unimplemented!() }
}
#[verifier::external_body]
pub fn walk(p: u64, Tracked(w): Tracked<&World>) -> Iter<std::result::Result<DirEntry, IoError>> { unimplemented!() }
#[verifier::external_body]
pub fn bucket_entries(p: u64, Tracked(w): Tracked<&World>) -> std::result::Result<Vec<SM>, IoError> { unimplemented!() }
#[verifier::external_body]
pub fn parse_sri(s: &String) -> (r: Option<u64>) { unimplemented!() }

pub fn ls(cache: u64, Tracked(w): Tracked<&World>) -> Iter<Result<Metadata>> {
    walk(cache, Tracked(w))
        .map(move |bucket: std::result::Result<DirEntry, IoError>| -> (r: Result<Vec<Metadata>>) {
            let bucket = match bucket { Ok(b) => b, Err(e) => return Err(Error::Io(e)) };
            if bucket.is_dir() {
                return Ok(Vec::new());
            }
            Ok(match bucket_entries(bucket.path(), Tracked(w)) { Ok(v) => v, Err(e) => return Err(Error::Io(e)) }
                .into_iter_()
                .rev()
                .collect::<HashSet<SM>>()
                .into_iter_()
                .filter_map(|se: SM| {
                    if let Some(i) = se.integrity {
                        Some(Metadata {
                            key: se.key,
                            integrity: parse_sri(&i).unwrap(),
                        })
                    } else {
                        None
                    }
                })
                .collect())
        })
        .flat_map(|res: Result<Vec<Metadata>>| match res {
            Ok(it) => Left(it.into_iter_().map(|m: Metadata| -> (r: Result<Metadata>) { Ok(m) })),
            Err(err) => Right(once(Err(err))),
        })
}
}
fn main() {}
