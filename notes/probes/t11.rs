use vstd::prelude::*;
verus! {
pub struct World { pub ghost trace: Seq<int> }
#[verifier::external_body] pub struct PathBuf { p: u8 }
#[verifier::external_body] pub struct Path { p: u8 }
#[verifier::external_body] pub struct IoError { e: u8 }
#[verifier::external_body] pub struct SerdeError { e: u8 }
#[verifier::external_body] pub struct Integrity { i: u8 }
pub struct SriV { pub algo: int, pub digest: Seq<u8> }
impl View for Integrity { type V = SriV; uninterp spec fn view(&self) -> SriV; }
impl Clone for Integrity {
    #[verifier::external_body]
    fn clone(&self) -> (r: Self) ensures r@ == self@ { unimplemented!() }
}
pub uninterp spec fn sri_to_string(s: SriV) -> Seq<char>;
impl Integrity {
    #[verifier::external_body]
    pub fn to_string(&self) -> (r: String) ensures r@ == sri_to_string(self@) { unimplemented!() }
}
pub uninterp spec fn sri_parse(s: Seq<char>) -> Option<SriV>;
pub struct ParseErr {}
impl std::str::FromStr for Integrity {
    type Err = ParseErr;
    #[verifier::external_body]
    fn from_str(s: &str) -> (r: std::result::Result<Integrity, ParseErr>)
        ensures (r is Ok) == (sri_parse(s@) is Some), r is Ok ==> r->Ok_0@ == sri_parse(s@)->Some_0
    { unimplemented!() }
}
#[derive(Clone)]
pub enum Algorithm { Sha256 }
pub enum Error { IoError(IoError), SerdeError(SerdeError) }
pub type Result<T> = std::result::Result<T, Error>;

pub trait IoErrorExt<T> {
    spec fn is_ok(&self) -> bool;
    spec fn ok_val(&self) -> T;
    fn with_context<F: FnOnce() -> String>(self, f: F) -> (r: Result<T>)
        ensures r is Ok == self.is_ok(), r is Ok ==> r->Ok_0 == self.ok_val();
}
impl<T> IoErrorExt<T> for std::result::Result<T, IoError> {
    open spec fn is_ok(&self) -> bool { self is Ok }
    open spec fn ok_val(&self) -> T { self->Ok_0 }
    fn with_context<F: FnOnce() -> String>(self, f: F) -> (r: Result<T>)
    { match self { Ok(t) => Ok(t), Err(e) => Err(Error::IoError(e)), } }
}
impl<T> IoErrorExt<T> for std::result::Result<T, SerdeError> {
    open spec fn is_ok(&self) -> bool { self is Ok }
    open spec fn ok_val(&self) -> T { self->Ok_0 }
    fn with_context<F: FnOnce() -> String>(self, f: F) -> (r: Result<T>)
    { match self { Ok(t) => Ok(t), Err(e) => Err(Error::SerdeError(e)), } }
}
macro_rules! format { ($($t:tt)*) => { opaque_msg() } }
#[verifier::external_body]
pub fn opaque_msg() -> String { String::new() }

pub mod serde_json {
    use super::*;
    pub enum Value { Null, Other(u64) }
    pub uninterp spec fn json_of(m: SerializableMetadata) -> Seq<char>;
    #[verifier::external_body]
    pub fn to_string(m: &SerializableMetadata) -> (r: std::result::Result<String, SerdeError>)
        ensures r is Ok ==> r->Ok_0@ == json_of(*m)
    { unimplemented!() }
}
use serde_json::Value;

pub struct SerializableMetadata {
    pub key: String,
    pub integrity: Option<String>,
    pub time: u128,
    pub size: usize,
    pub metadata: Value,
    pub raw_metadata: Option<Vec<u8>>,
}
pub struct WriteOpts {
    pub algorithm: Option<Algorithm>,
    pub sri: Option<Integrity>,
    pub size: Option<usize>,
    pub time: Option<u128>,
    pub metadata: Option<Value>,
    pub raw_metadata: Option<Vec<u8>>,
}
#[verifier::external_trait_specification]
pub trait ExFromStr: Sized {
    type ExternalTraitSpecificationFor: std::str::FromStr;
    type Err;
    fn from_str(s: &str) -> std::result::Result<Self, Self::Err>;
}
pub uninterp spec fn utf8(s: Seq<char>) -> Seq<u8>;
pub assume_specification [std::string::String::as_bytes] (s: &std::string::String) -> (r: &[u8]) ensures r@ == utf8(s@);
pub assume_specification<T, F> [std::option::Option::<T>::or_else] (o: std::option::Option<T>, f: F) -> (r: std::option::Option<T>)
    where F: std::ops::FnOnce() -> std::option::Option<T> + std::marker::Destruct, T: std::marker::Destruct,
    requires o is None ==> call_requires(f, ()),
    ensures o is Some ==> r == o, o is None ==> call_ensures(f, (), r);
pub assume_specification<F> [str::parse] (s: &str) -> (r: std::result::Result<F, <F as std::str::FromStr>::Err>)
    where F: std::str::FromStr,
    ensures call_ensures(F::from_str, (s,), r);
#[verifier::external_body]
fn now() -> u128 { 0 }
#[verifier::external_body]
fn bucket_path(cache: &Path, key: &str) -> PathBuf { unimplemented!() }
#[verifier::external_body]
fn hash_entry(key: &str) -> String { unimplemented!() }
impl PathBuf {
    #[verifier::external_body]
    pub fn parent(&self) -> (r: Option<&Path>) ensures r is Some { unimplemented!() }
}
pub mod fs {
    use super::*;
    #[verifier::external_body]
    pub fn create_dir_all(p: &Path, Tracked(w): Tracked<&mut World>) -> (r: std::result::Result<(), IoError>) { unimplemented!() }
    #[verifier::external_body] pub struct File { f: u8 }
    impl File {
        #[verifier::external_body]
        pub fn write_all(&mut self, b: &[u8], Tracked(w): Tracked<&mut World>) -> (r: std::result::Result<(), IoError>) { unimplemented!() }
        #[verifier::external_body]
        pub fn flush(&mut self) -> (r: std::result::Result<(), IoError>) { unimplemented!() }
    }
}
pub struct OpenOptions { pub create: bool, pub append: bool }
impl OpenOptions {
    pub fn new() -> (r: Self) { OpenOptions { create: false, append: false } }
    pub fn create(&mut self, b: bool) -> (r: &mut Self) ensures *final(r) == *final(self), r.append == old(self).append, r.create == b { self.create = b; self }
    pub fn append(&mut self, b: bool) -> (r: &mut Self) ensures *final(r) == *final(self), r.create == old(self).create, r.append == b  { self.append = b; self }
    #[verifier::external_body]
    pub fn open(&self, p: &PathBuf, Tracked(w): Tracked<&mut World>) -> (r: std::result::Result<fs::File, IoError>) { unimplemented!() }
}

pub fn insert(cache: &Path, key: &str, opts: WriteOpts, Tracked(w): Tracked<&mut World>) -> Result<Integrity> {
    let bucket = bucket_path(cache, key);
    fs::create_dir_all(bucket.parent().unwrap(), Tracked(w)).with_context(|| {
        format!(
            "Failed to create index bucket directory: {:?}",
            bucket.parent().unwrap()
        )
    })?;
    let stringified = serde_json::to_string(&SerializableMetadata {
        key: key.to_owned(),
        integrity: opts.sri.clone().map(|x| x.to_string()),
        time: opts.time.unwrap_or_else(now),
        size: opts.size.unwrap_or(0),
        metadata: opts.metadata.unwrap_or(serde_json::Value::Null),
        raw_metadata: opts.raw_metadata,
    })
    .with_context(|| format!("Failed to serialize entry with key `{key}`"))?;

    let mut buck = OpenOptions::new()
        .create(true)
        .append(true)
        .open(&bucket, Tracked(w))
        .with_context(|| format!("Failed to create or open index bucket at {bucket:?}"))?;

    let out = format!("\n{}\t{}", hash_entry(&stringified), stringified);
    buck.write_all(out.as_bytes(), Tracked(w))
        .with_context(|| format!("Failed to write to index bucket at {bucket:?}"))?;
    buck.flush()
        .with_context(|| format!("Failed to flush bucket at {bucket:?}"))?;
    Ok(opts
        .sri
        .or_else(|| "sha1-deadbeef".parse::<Integrity>().ok())
        .unwrap())
}
}
fn main() {}
