use vstd::prelude::*;
verus! {

// ===== ghost world =====
pub struct PathV { pub comps: Seq<Seq<char>> }
pub enum Op {
    Copy { from: PathV, to: PathV },
    Link { from: PathV, to: PathV },
}
pub struct World { pub ghost trace: Seq<Op> }

pub uninterp spec fn fs_content(p: PathV) -> Option<Seq<u8>>;   // quiescent content of path

// ===== shims =====
#[verifier::external_body]
pub struct Path { p: std::path::PathBuf }
#[verifier::external_body]
pub struct PathBuf { p: std::path::PathBuf }
impl View for Path { type V = PathV; uninterp spec fn view(&self) -> PathV; }
impl View for PathBuf { type V = PathV; uninterp spec fn view(&self) -> PathV; }

#[verifier::external_body]
pub struct IoError { e: std::io::Error }

pub struct SriV { pub algo: int, pub digest: Seq<u8> }
pub uninterp spec fn sri_matches(sri: SriV, data: Seq<u8>) -> bool;

#[verifier::external_body]
pub struct Integrity { i: u8 }
impl View for Integrity { type V = SriV; uninterp spec fn view(&self) -> SriV; }
impl Clone for Integrity {
    #[verifier::external_body]
    fn clone(&self) -> (r: Self) ensures r@ == self@ { unimplemented!() }
}

#[verifier::external_body]
pub struct IntegrityChecker { i: u8 }
pub struct CheckerV { pub sri: SriV, pub fed: Seq<u8> }
impl View for IntegrityChecker { type V = CheckerV; uninterp spec fn view(&self) -> CheckerV; }
pub enum SsriError { IntegrityCheckError }
pub enum Algorithm { Sha256 }
impl IntegrityChecker {
    #[verifier::external_body]
    pub fn new(sri: Integrity) -> (r: Self) ensures r@ == (CheckerV { sri: sri@, fed: Seq::empty() }) { unimplemented!() }
    #[verifier::external_body]
    pub fn input(&mut self, data: &[u8]) ensures final(self)@ == (CheckerV { sri: old(self)@.sri, fed: old(self)@.fed + data@ }) { unimplemented!() }
    #[verifier::external_body]
    pub fn result(self) -> (r: std::result::Result<Algorithm, SsriError>) ensures r is Ok <==> sri_matches(self@.sri, self@.fed) { unimplemented!() }
}

pub enum Error { IoError(IoError), Integrity(SsriError) }
pub type Result<T> = std::result::Result<T, Error>;

#[verifier::external_body]
pub struct File { f: u8 }
pub struct FileV { pub content: Seq<u8>, pub pos: int }
impl View for File { type V = FileV; uninterp spec fn view(&self) -> FileV; }
impl File {
    #[verifier::external_body]
    pub fn open(p: PathBuf) -> (r: std::result::Result<File, IoError>)
        ensures r is Ok ==> fs_content(p@) is Some && fs_content(p@)->Some_0.len() <= usize::MAX && r->Ok_0@ == (FileV { content: fs_content(p@)->Some_0, pos: 0 })
    { unimplemented!() }
    #[verifier::external_body]
    pub fn read(&mut self, buf: &mut [u8]) -> (r: std::result::Result<usize, IoError>)
        ensures
            final(buf)@.len() == old(buf)@.len(),
            match r {
                Ok(n) => n <= old(buf)@.len() && old(self)@.pos + n <= old(self)@.content.len()
                    && final(self)@ == (FileV { content: old(self)@.content, pos: old(self)@.pos + n })
                    && final(buf)@.subrange(0, n as int) == old(self)@.content.subrange(old(self)@.pos, old(self)@.pos + n)
                    && (n == 0 && old(buf)@.len() > 0 ==> old(self)@.pos == old(self)@.content.len()),
                Err(_) => final(self)@ == old(self)@,
            }
    { unimplemented!() }
}

pub struct Reader { pub fd: File, pub checker: IntegrityChecker }

#[verifier::external_body]
pub fn slice_to<'a>(buf: &'a [u8], n: usize) -> (r: &'a [u8]) requires n <= buf@.len() ensures r@ == buf@.subrange(0, n as int) { &buf[..n] }

impl Reader {
    fn read(&mut self, buf: &mut [u8]) -> (r: std::result::Result<usize, IoError>)
        requires old(self).checker@.fed == old(self).fd@.content.subrange(0, old(self).fd@.pos),
            0 <= old(self).fd@.pos <= old(self).fd@.content.len(),
        ensures final(self).checker@.fed == final(self).fd@.content.subrange(0, final(self).fd@.pos),
            final(self).fd@.content == old(self).fd@.content,
            final(self).checker@.sri == old(self).checker@.sri,
            0 <= final(self).fd@.pos <= final(self).fd@.content.len(),
            r is Ok ==> final(self).fd@.pos == old(self).fd@.pos + r->Ok_0,
            r is Ok && r->Ok_0 == 0 && old(buf)@.len() > 0 ==> final(self).fd@.pos == final(self).fd@.content.len(),
            r is Err ==> final(self).fd@.pos == old(self).fd@.pos,
    {
        let amt = self.fd.read(buf)?;
        self.checker.input(&buf[..amt]);
        proof { assert(self.checker@.fed =~= self.fd@.content.subrange(0, self.fd@.pos)); }
        Ok(amt)
    }
}

impl std::convert::From<SsriError> for Error {
    fn from(e: SsriError) -> (r: Error) ensures r == Error::Integrity(e) { Error::Integrity(e) }
}

impl vstd::std_specs::convert::FromSpecImpl<SsriError> for Error {
    open spec fn obeys_from_spec() -> bool { true }
    open spec fn from_spec(e: SsriError) -> Error { Error::Integrity(e) }
}
pub trait IoErrorExt<T> {
    spec fn is_ok(&self) -> bool;
    spec fn ok_val(&self) -> T;
    fn with_context<F: FnOnce() -> String>(self, f: F) -> (r: Result<T>)
        ensures r is Ok == self.is_ok(), r is Ok ==> r->Ok_0 == self.ok_val();
}
impl<T> IoErrorExt<T> for std::result::Result<T, IoError> {
    open spec fn is_ok(&self) -> bool { self is Ok }
    open spec fn ok_val(&self) -> T { self->Ok_0 }
    fn with_context<F: FnOnce() -> String>(self, f: F) -> (r: Result<T>)
    {
        match self {
            Ok(t) => Ok(t),
            Err(e) => Err(Error::IoError(e)),
        }
    }
}

macro_rules! format { ($($t:tt)*) => { opaque_msg() } }
#[verifier::external_body]
pub fn opaque_msg() -> String { String::new() }

impl Reader {
    pub fn check(self) -> (r: Result<Algorithm>)
        ensures r is Ok <==> sri_matches(self.checker@.sri, self.checker@.fed)
    {
        Ok(self.checker.result()?)
    }
}

pub mod path {
    use super::*;
    pub uninterp spec fn content_path_spec(cache: PathV, sri: SriV) -> PathV;
    #[verifier::external_body]
    pub fn content_path(cache: &Path, sri: &Integrity) -> (r: PathBuf) ensures r@ == content_path_spec(cache@, sri@) { unimplemented!() }
}
impl PathBuf {
    #[verifier::external_body]
    pub fn display(&self) -> (r: u8) { 0 }
}
impl Path {
    #[verifier::external_body]
    pub fn display(&self) -> (r: u8) { 0 }
}

pub open spec fn reader_wf(r: Reader) -> bool {
    r.fd@.content.len() <= usize::MAX && r.checker@.fed =~= r.fd@.content.subrange(0, r.fd@.pos) && 0 <= r.fd@.pos <= r.fd@.content.len()
}

pub fn open(cache: &Path, sri: Integrity) -> (r: Result<Reader>)
    ensures r is Ok ==> reader_wf(r->Ok_0) && r->Ok_0.checker@.sri == sri@ && r->Ok_0.fd@.pos == 0
        && fs_content(path::content_path_spec(cache@, sri@)) == Some(r->Ok_0.fd@.content)
{
    let cpath = path::content_path(cache, &sri);
    Ok(Reader {
        fd: File::open(cpath).with_context(|| {
            format!(
                "Failed to open reader to {}",
                path::content_path(cache, &sri).display()
            )
        })?,
        checker: IntegrityChecker::new(sri),
    })
}

#[verifier::external_body]
pub fn copy_unchecked(cache: &Path, sri: &Integrity, to: &Path, Tracked(w): Tracked<&mut World>) -> (r: Result<u64>)
    ensures
        r is Ok ==> final(w).trace == old(w).trace.push(Op::Copy { from: path::content_path_spec(cache@, sri@), to: to@ })
            && fs_content(path::content_path_spec(cache@, sri@)) is Some
            && r->Ok_0 == fs_content(path::content_path_spec(cache@, sri@))->Some_0.len(),
        r is Err ==> final(w).trace == old(w).trace,
{ unimplemented!() }

pub fn copy(cache: &Path, sri: &Integrity, to: &Path, Tracked(w): Tracked<&mut World>) -> (r: Result<u64>)
    ensures
        r is Ok ==> {
            &&& fs_content(path::content_path_spec(cache@, sri@)) is Some
            &&& sri_matches(sri@, fs_content(path::content_path_spec(cache@, sri@))->Some_0)
            &&& r->Ok_0 == fs_content(path::content_path_spec(cache@, sri@))->Some_0.len()
            &&& final(w).trace == old(w).trace.push(Op::Copy { from: path::content_path_spec(cache@, sri@), to: to@ })
        },
        r is Err ==> final(w).trace == old(w).trace,
{
    let mut reader = open(cache, sri.clone())?;
    let mut buf: [u8; 1024] = [0; 1024];
    let mut size = 0;
    loop 
        invariant reader_wf(reader), size == reader.fd@.pos, reader.checker@.sri == sri@,
           fs_content(path::content_path_spec(cache@, sri@)) == Some(reader.fd@.content),
           w.trace == old(w).trace,
        ensures reader_wf(reader), size == reader.fd@.pos, reader.fd@.pos == reader.fd@.content.len(), reader.checker@.sri == sri@,
           fs_content(path::content_path_spec(cache@, sri@)) == Some(reader.fd@.content),
           w.trace == old(w).trace,
        decreases reader.fd@.content.len() - reader.fd@.pos,
    {
        let read = reader.read(&mut buf).with_context(|| {
            format!(
                "Failed to read cache contents while verifying integrity for {}",
                path::content_path(cache, sri).display()
            )
        })?;
        size += read;
        if read == 0 {
            break;
        }
    }
    proof { assert(reader.fd@.content.subrange(0, reader.fd@.pos) =~= reader.fd@.content); }
    reader.check()?;
    copy_unchecked(cache, sri, to, Tracked(w))?;

    Ok(size as u64)
}
}
fn main() {}
