use vstd::prelude::*;
verus! {
#[verifier::external_body] pub struct IoError { e: u8 }
#[verifier::external_body]
#[verifier::reject_recursive_types(T)]
pub struct JoinHandle<T> { t: std::marker::PhantomData<T> }
#[verifier::external_body]
#[verifier::reject_recursive_types(T)]
pub struct Mutex<T> { t: std::marker::PhantomData<T> }
#[verifier::external_body]
pub struct Context { c: u8 }
pub enum Poll<T> { Ready(T), Pending }

pub struct Inner { pub buf: Vec<u8>, pub last_op: Option<Operation> }
pub enum Operation { Write(std::result::Result<usize, IoError>), Flush(std::result::Result<(), IoError>) }
pub enum State { Idle(Option<Inner>), Busy(JoinHandle<State>) }

#[verifier::external_body]
pub fn spawn_blocking<F: FnOnce() -> State>(f: F) -> (r: JoinHandle<State>) { unimplemented!() }
#[verifier::external_body]
pub fn poll_handle(h: &mut JoinHandle<State>, cx: &mut Context) -> (r: Poll<State>) { unimplemented!() }
#[verifier::external_body]
pub fn io_error(s: &str) -> IoError { unimplemented!() }

#[verifier::exec_allows_no_decreases_clause]
pub fn poll_write(state: &mut State, cx: &mut Context, buf: &[u8]) -> Poll<std::result::Result<usize, IoError>>
{
        loop {
            match state {
                State::Idle(opt) => {
                    let inner = match opt.as_mut() { Some(i) => i, None => return Poll::Ready(Err(io_error("file closed"))) };

                    if let Some(Operation::Write(res)) = inner.last_op.take() {
                        let n = match res { Ok(n) => n, Err(e) => return Poll::Ready(Err(e)) };
                        if n <= buf.len() {
                            return Poll::Ready(Ok(n));
                        }
                    } else {
                        let mut inner = opt.take().unwrap();
                        *state = State::Busy(spawn_blocking(move || {
                            inner.last_op = Some(Operation::Write(Ok(inner.buf.len())));
                            State::Idle(Some(inner))
                        }));
                    }
                }
                State::Busy(task) => {
                    match poll_handle(task, cx) { Poll::Ready(s) => { *state = s; }, Poll::Pending => return Poll::Pending }
                }
            }
        }
}
}
fn main() {}
