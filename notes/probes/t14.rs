use vstd::prelude::*;
verus! {
// ---------- spec-level paths and FS ----------
pub struct PathV { pub comps: Seq<Seq<char>> }
pub open spec fn under(p: PathV, d: PathV) -> bool { d.comps.len() <= p.comps.len() && p.comps.subrange(0, d.comps.len() as int) == d.comps }
pub open spec fn child(d: PathV, name: Seq<char>) -> PathV { PathV { comps: d.comps.push(name) } }

pub struct SriV { pub algo: int, pub digest: Seq<u8> }
pub uninterp spec fn digest_of(algo: int, data: Seq<u8>) -> SriV;
pub uninterp spec fn content_rel(sri: SriV) -> Seq<Seq<char>>;   // [algo, h01, h23, rest]
pub open spec fn content_dir(cache: PathV) -> PathV { child(cache, "content-v2"@) }
pub open spec fn tmp_dir(cache: PathV) -> PathV { child(cache, "tmp"@) }
pub open spec fn content_path_spec(cache: PathV, sri: SriV) -> PathV { PathV { comps: content_dir(cache).comps + content_rel(sri) } }
pub uninterp spec fn sri_matches(sri: SriV, data: Seq<u8>) -> bool;
#[verifier::external_body]
pub broadcast proof fn axiom_digest_matches(algo: int, data: Seq<u8>) ensures #[trigger] sri_matches(digest_of(algo, data), data) {}
pub proof fn lemma_tmp_not_content(cache: PathV, p: PathV)
    requires under(p, tmp_dir(cache)) ensures !under(p, content_dir(cache))
{
    reveal_strlit("tmp"); reveal_strlit("content-v2");
    let n = cache.comps.len() as int;
    assert(p.comps.subrange(0, n + 1)[n] == "tmp"@);
    if under(p, content_dir(cache)) {
        assert(p.comps.subrange(0, n + 1)[n] == "content-v2"@);
        assert("tmp"@.len() != "content-v2"@.len());
    }
}
pub proof fn lemma_rel_content(cache: PathV, sri: SriV)
    ensures under(content_path_spec(cache, sri), content_dir(cache)), rel_to(content_path_spec(cache, sri), content_dir(cache)) == content_rel(sri)
{
    let d = content_dir(cache).comps; let r = content_rel(sri);
    assert((d + r).subrange(0, d.len() as int) =~= d);
    assert((d + r).subrange(d.len() as int, (d + r).len() as int) =~= r);
}
pub struct Fs { pub files: Map<PathV, Seq<u8>> }
pub uninterp spec fn data_ok(rel: Seq<Seq<char>>, data: Seq<u8>) -> bool;
#[verifier::external_body]
pub broadcast proof fn axiom_data_ok(sri: SriV, d: Seq<u8>) ensures #[trigger] data_ok(content_rel(sri), d) == sri_matches(sri, d) {}
pub open spec fn rel_to(p: PathV, d: PathV) -> Seq<Seq<char>> { p.comps.subrange(d.comps.len() as int, p.comps.len() as int) }
pub open spec fn content_ok(fs: Fs, cache: PathV) -> bool {
    forall|p: PathV| #[trigger] fs.files.contains_key(p) && under(p, content_dir(cache)) ==> data_ok(rel_to(p, content_dir(cache)), fs.files[p])
}
pub open spec fn only_content_paths(fs: Fs, cache: PathV) -> bool {
    forall|p: PathV| #[trigger] fs.files.contains_key(p) && under(p, content_dir(cache)) ==> exists|sri: SriV| p == content_path_spec(cache, sri)
}
pub struct World { pub ghost fs: Fs, pub ghost hist: Seq<Fs> }
pub open spec fn hist_ok(w: World, from: int, cache: PathV) -> bool {
    forall|i: int| from <= i < w.hist.len() ==> content_ok(#[trigger] w.hist[i], cache)
}

// ---------- shims ----------
#[verifier::external_body] pub struct PathBuf { p: u8 }
impl View for PathBuf { type V = PathV; uninterp spec fn view(&self) -> PathV; }
#[verifier::external_body] pub struct IoError { e: u8 }
#[verifier::external_body] pub struct Integrity { i: u8 }
impl View for Integrity { type V = SriV; uninterp spec fn view(&self) -> SriV; }

#[verifier::external_body] pub struct NamedTempFile { f: u8 }
impl View for NamedTempFile { type V = PathV; uninterp spec fn view(&self) -> PathV; }
pub struct PersistError { pub error: IoError, pub file: NamedTempFile }
impl NamedTempFile {
    #[verifier::external_body]
    pub fn persist(self, dest: &PathBuf, Tracked(w): Tracked<&mut World>) -> (r: std::result::Result<(), PersistError>)
        requires old(w).fs.files.contains_key(self@),
        ensures
            r is Ok ==> final(w).fs.files == old(w).fs.files.remove(self@).insert(dest@, old(w).fs.files[self@])
                     && final(w).hist == old(w).hist.push(final(w).fs),
            r is Err ==> final(w).fs == old(w).fs && final(w).hist == old(w).hist && r->Err_0.file@ == self@,
    { unimplemented!() }
}
impl PathBuf {
    #[verifier::external_body]
    pub fn exists(&self, Tracked(w): Tracked<&World>) -> (r: bool) ensures r ==> w.fs.files.contains_key(self@) { unimplemented!() }
}
#[verifier::external_body]
pub fn content_path(cache: &PathBuf, sri: &Integrity) -> (r: PathBuf) ensures r@ == content_path_spec(cache@, sri@) { unimplemented!() }
#[verifier::external_body]
pub fn mkdirs(p: &PathBuf, Tracked(w): Tracked<&mut World>) -> (r: std::result::Result<(), IoError>)
    ensures final(w).fs.files == old(w).fs.files, final(w).hist == old(w).hist.push(final(w).fs) { unimplemented!() }

#[verifier::external_body] pub struct IntegrityOpts { f: u8 }
pub struct BuilderV { pub algo: int, pub fed: Seq<u8> }
impl View for IntegrityOpts { type V = BuilderV; uninterp spec fn view(&self) -> BuilderV; }
impl IntegrityOpts {
    #[verifier::external_body]
    pub fn result(self) -> (r: Integrity) ensures r@ == digest_of(self@.algo, self@.fed) { unimplemented!() }
}

pub struct Writer { pub cache: PathBuf, pub builder: IntegrityOpts, pub tmpfile: NamedTempFile }
pub open spec fn writer_wf(wr: Writer, w: World) -> bool {
    &&& w.fs.files.contains_key(wr.tmpfile@)
    &&& w.fs.files[wr.tmpfile@] == wr.builder@.fed
    &&& under(wr.tmpfile@, tmp_dir(wr.cache@))
}

pub enum Error { Io(IoError) }
impl Writer {
    pub fn close(self, Tracked(w): Tracked<&mut World>) -> (r: std::result::Result<Integrity, Error>)
        requires writer_wf(self, *old(w)), content_ok(old(w).fs, self.cache@), old(w).hist.len() > 0, old(w).hist.last() == old(w).fs,
        ensures hist_ok(*final(w), old(w).hist.len() as int, self.cache@), content_ok(final(w).fs, self.cache@),
            r is Ok ==> r->Ok_0@ == digest_of(self.builder@.algo, self.builder@.fed)
                && final(w).fs.files.contains_key(content_path_spec(self.cache@, r->Ok_0@)),
    {
        let sri = self.builder.result();
        let cpath = content_path(&self.cache, &sri);
        match mkdirs(&cpath, Tracked(w)) { Ok(_) => {}, Err(e) => return Err(Error::Io(e)) };
        let ghost fs0 = w.fs; let ghost tp = self.tmpfile@; let ghost cache = self.cache@;
        let res = self.tmpfile.persist(&cpath, Tracked(w));
        proof {
            broadcast use axiom_digest_matches, axiom_data_ok;
            lemma_tmp_not_content(cache, tp);
            lemma_rel_content(cache, sri@);
        }
        match res {
            Ok(_) => {}
            Err(e) => {
                if !cpath.exists(Tracked(&*w)) {
                    return Err(Error::Io(e.error));
                }
            }
        }
        Ok(sri)
    }
}
}
fn main() {}
