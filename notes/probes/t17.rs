use vstd::prelude::*;
verus! {
pub struct World { pub ghost removed: Set<int> }
#[verifier::external_body] pub struct IoError { e: u8 }
pub struct DirEntry { pub id: u64 }
#[verifier::external_body]
pub fn read_dir_flatten(Tracked(w): Tracked<&World>) -> (r: std::vec::IntoIter<DirEntry>) { unimplemented!() }
#[verifier::external_body]
pub fn remove_dir_all(id: u64, Tracked(w): Tracked<&mut World>) -> (r: std::result::Result<(), IoError>)
    ensures r is Ok ==> final(w).removed == old(w).removed.insert(id as int), r is Err ==> final(w).removed == old(w).removed
{ unimplemented!() }

pub fn clear(Tracked(w): Tracked<&mut World>) -> (r: std::result::Result<(), IoError>)
{
    for entry in it: read_dir_flatten(Tracked(&*w))
        invariant true
    {
        remove_dir_all(entry.id, Tracked(w))?;
    }
    Ok(())
}
}
fn main() {}
